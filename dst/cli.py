"""Entry point: python -m dst.cli <ID> [--tier quick|thorough] [--seed N] [--replay FILE] ...

Exit codes: 0 property held on everything explored (known findings printed as
KNOWN-FINDING lines), 1 at least one VIOLATION line, 2 harness error."""
import argparse
import importlib
import json
import os
import pathlib
import subprocess
import sys
import time

VERIF = pathlib.Path(__file__).resolve().parent.parent


def load_check(name):
    return importlib.import_module("checks." + name.lower())


def main(argv=None):
    ap = argparse.ArgumentParser()
    ap.add_argument("check")
    ap.add_argument("--tier", default=os.environ.get("VERIF_TIER") or "quick", choices=["quick", "thorough"])
    ap.add_argument("--seed", type=int, default=None)
    ap.add_argument("--budget-s", type=float, default=None)
    ap.add_argument("--runs", type=int, default=None)
    ap.add_argument("--workers", type=int, default=None)
    ap.add_argument("--replay", default=None)
    ap.add_argument("--json", action="store_true", help="replay: print the result as JSON")
    ap.add_argument("--selftest-determinism", type=int, default=0, metavar="N",
                    help="run N seeds twice and compare event-log digests; no evidence written")
    ap.add_argument("--digests", action="store_true", help="with --selftest-determinism: print idx:digest lines")
    ap.add_argument("--no-evidence", action="store_true")
    ap.add_argument("--run-seed", type=int, default=None, help="execute the run with this run seed, minimise a violation and print the trace")
    ap.add_argument("--one", type=int, default=None, metavar="IDX", help="run a single index in-process fork and print its result")
    args = ap.parse_args(argv)

    # heavy imports after arg parsing; the parent is "warm" but has touched nothing
    import dclab  # noqa: F401
    import h5py  # noqa: F401
    from . import driver, findings

    mod = load_check(args.check)
    master = args.seed
    if master is None:
        env = os.environ.get("VERIF_SEED")
        master = int(env) if env not in (None, "") else 1

    if args.replay:
        return do_replay(mod, args, driver)
    if args.run_seed is not None:
        trace = driver.make_trace(mod, args.run_seed, args.tier, None)
        res = driver.fork_run(mod, trace, args.tier, 3600)
        vs = [v for v in res.get("violations") or []]
        print("harness_error:", res.get("harness_error"))
        for v in vs:
            print("violation:", v["oracle"], v["detail"][:1500], v.get("sig"), "known=" + str(v.get("known")))
        if vs:
            tr = dict(vs[0].get("trace") or res.get("trace"))
            tr["seed"] = args.run_seed
            small, n = driver.minimise(mod, args.tier, tr, vs[0]["oracle"], 600, max_tests=150, max_wall=120)
            print("minimised with", n, "runs:")
            print(json.dumps({k: v for k, v in small.items() if k != "ops"}, default=str))
            for o in small.get("ops") or []:
                print("   ", json.dumps(o))
        return 1 if vs else 0
    if args.one is not None:
        seed = driver.run_seed(master, mod.NAME, args.one)
        trace = driver.make_trace(mod, seed, args.tier, args.one)
        trace["_want_trace"] = True
        res = driver.fork_run(mod, trace, args.tier, 3600)
        print(json.dumps(res, indent=1, default=driver._json_default)[:20000])
        return 0

    plan = mod.plan(args.tier)
    if args.budget_s is not None:
        plan["budget_s"] = args.budget_s
    if args.runs is not None:
        plan["runs"] = args.runs
    workers = args.workers or int(os.environ.get("VERIF_WORKERS") or 0) or min(16, os.cpu_count() or 4)
    if args.selftest_determinism:
        return selftest_determinism(mod, args, plan, master, workers, driver)
    return run_check(mod, args, plan, master, workers, driver, findings)


# ----------------------------------------------------------------------------

def do_replay(mod, args, driver):
    ok, same_digest, res = driver.replay(mod, args.replay, args.tier)
    if args.json:
        print(json.dumps({"reproduced": ok, "same_digest": same_digest,
                          "digest": res.get("digest"),
                          "violations": res.get("violations"),
                          "harness_error": res.get("harness_error")}, default=driver._json_default))
    if res.get("harness_error") or res.get("harness_timeout"):
        print("HARNESS-ERROR during replay:", res.get("harness_error") or "timeout")
        return 2
    if ok:
        for v in res["violations"]:
            print(f"replayed: oracle={v['oracle']} detail={v['detail'][:400]}")
        print(f"digest {'matches' if same_digest else 'DIFFERS from'} the recorded one")
        print(f"VIOLATION property={mod.PROPERTY} replay={args.replay}")
        return 1
    print("not reproduced: the recorded violation does not occur on this tree")
    return 0


def selftest_determinism(mod, args, plan, master, workers, driver):
    n = args.selftest_determinism
    pool = driver.Pool(mod, args.tier, master, workers, plan.get("run_timeout_s", 300))
    jobs = [(i, r) for i in range(n) for r in (0, 1)]
    for j in jobs:
        pool.feed(*j)
    pool.close_jobs()
    got = {}
    bad = 0
    while pool.alive():
        for res in pool.results():
            if res.get("harness_error") or res.get("harness_timeout"):
                print("HARNESS-ERROR", res.get("idx"), res.get("harness_error") or "timeout")
                bad += 1
                continue
            got.setdefault(res["idx"], []).append(res["digest"])
    pool.shutdown()
    mism = [i for i, d in got.items() if len(set(d)) != 1 or len(d) != 2]
    if args.digests:
        for i in sorted(got):
            print(f"{i}:{got[i][0]}")
    print(f"determinism: {len(got)} seeds run twice, {len(mism)} mismatches, {bad} harness errors")
    return 2 if (mism or bad) else 0


def run_check(mod, args, plan, master, workers, driver, findings):
    t0 = time.monotonic()
    tier = args.tier
    budget = plan["budget_s"]
    max_runs = plan["runs"]
    det_pairs = plan.get("det_pairs", 3)
    timeout_s = plan.get("run_timeout_s", 300)
    print(f"check={mod.NAME} property={mod.PROPERTY} tier={tier} VERIF_SEED={master} workers={workers} "
          f"runs<={max_runs} budget_s={budget} PYTHONHASHSEED={os.environ.get('PYTHONHASHSEED')}", flush=True)
    pool = driver.Pool(mod, tier, master, workers, timeout_s)

    def jobs():
        for i in range(max_runs):
            yield (i, 0)
            if i < det_pairs:
                yield (i, 1)
    jobit = jobs()
    outstanding = 0
    fed_all = False

    def feed_more(k):
        nonlocal outstanding, fed_all
        for _ in range(k):
            try:
                j = next(jobit)
            except StopIteration:
                fed_all = True
                pool.close_jobs()
                return
            pool.feed(*j)
            outstanding += 1

    feed_more(workers * 2)
    agg = Aggregate(mod)
    harness = []
    det = {}
    while outstanding > 0 and pool.alive():
        for res in pool.results():
            outstanding -= 1
            if time.monotonic() - t0 < budget and not fed_all and len(agg.unknown) < 8:
                feed_more(1)
            elif not fed_all:
                fed_all = True
                pool.close_jobs()
            if res.get("harness_error") or res.get("harness_timeout"):
                if res.get("harness_timeout") and getattr(mod, "TIMEOUT_IS_VIOLATION", False):
                    agg.add_hang(res)
                else:
                    harness.append(res)
                continue
            if res["idx"] < det_pairs:
                det.setdefault(res["idx"], []).append(res["digest"])
            if res["rep"] == 0:
                agg.add(res)
    pool.shutdown()
    runs_wall = time.monotonic() - t0

    rc = 0
    for i, d in sorted(det.items()):
        if len(set(d)) != 1:
            print(f"HARNESS-ERROR determinism: idx {i} gave digests {d}")
            rc = 2
    for h in harness[:5]:
        print(f"HARNESS-ERROR idx={h.get('idx')} seed={h.get('seed')}: "
              f"{'HARNESS-TIMEOUT' if h.get('harness_timeout') else h.get('harness_error')}")
        rc = 2

    # ---- violations: minimise, write replay, confirm in a fresh interpreter ----
    n_viol = 0
    reported = set()
    for (oracle, sigkey), res_v in list(agg.unknown.items())[:4]:
        res, v = res_v
        trace = v.get("trace") or res.get("trace")
        if trace is None:
            print(f"HARNESS-ERROR no trace for violation {oracle}")
            rc = 2
            continue
        trace = dict(trace)
        trace["seed"] = res["seed"]
        small, ntests = driver.minimise(mod, tier, trace, oracle, timeout_s,
                                        max_tests=plan.get("min_tests", 200), max_wall=plan.get("min_wall", 90.0))
        small["_keep_log"] = False
        final = driver.fork_run(mod, dict(small), tier, timeout_s)
        fv = driver._same_failure(final, oracle)
        if fv is None:
            # minimisation must never lose the failure; fall back to the original trace
            small = trace
            final = driver.fork_run(mod, dict(small), tier, timeout_s)
            fv = driver._same_failure(final, oracle)
        if fv is None:
            print(f"HARNESS-ERROR violation of {oracle} (seed {res['seed']}) did not reproduce from its recorded trace")
            rc = 2
            continue
        path = driver.write_replay(mod, small, final, fv)
        # fresh interpreter
        cp = subprocess.run([str(VERIF / "bin" / "check"), mod.NAME, "--replay", str(path), "--tier", tier, "--json"],
                            capture_output=True, text=True)
        fresh_ok = cp.returncode == 1 and '"reproduced": true' in cp.stdout and '"same_digest": true' in cp.stdout
        if not fresh_ok:
            print(f"HARNESS-ERROR replay of {path} in a fresh interpreter did not reproduce identically:\n{cp.stdout[-800:]}\n{cp.stderr[-800:]}")
            rc = 2
            continue
        n_viol += 1
        print(f"violation: oracle={oracle} seed={res['seed']} ops={len(small.get('ops') or [])} "
              f"(minimised with {ntests} runs)\n  detail: {fv['detail'][:600]}")
        print(f"VIOLATION property={mod.PROPERTY} replay={path}")
        reported.add(oracle)
    for hres in agg.hangs[:2]:
        p = VERIF / "replays" / f"{mod.NAME}-hang-{hres.get('seed')}.json"
        p.parent.mkdir(exist_ok=True)
        tr = driver.make_trace(mod, hres["seed"], tier, hres.get("idx"))
        tr.update({"check": mod.NAME, "property": mod.PROPERTY,
                   "violation": {"oracle": mod.PROPERTY + ".termination.wall", "detail": "run exceeded the wall limit twice", "sig": {}}})
        p.write_text(json.dumps(tr, indent=1))
        print(f"VIOLATION property={mod.PROPERTY} replay={p}")
        n_viol += 1

    for fid, (count, example) in sorted(agg.known.items()):
        f = findings.by_id(fid) or {}
        print(f"KNOWN-FINDING: property={mod.PROPERTY} {f.get('what', fid)} [id={fid}, seen in {count} runs]")

    wall = time.monotonic() - t0
    if not args.no_evidence:
        ev = agg.evidence(tier, master, wall, runs_wall, n_viol, workers)
        write_evidence(mod, ev)
    s = agg.summary()
    print(f"runs={agg.n} nontrivial_distinct={s['distinct']} states={len(agg.states)} oracle_checks={agg.oracle_checks} "
          f"faults={agg.faults} sim_s={agg.sim_s:.0f} wall={wall:.1f}s runs/h={int(agg.n / max(runs_wall, 1e-6) * 3600)}")
    zero = [p for p in getattr(mod, "PROBES", []) if not agg.probes.get(p)]
    if zero:
        print("warning: probes stuck at zero:", ", ".join(zero))
    if n_viol:
        # a confirmed, replayable violation is reported as such even if other runs of the batch hit harness problems
        return 1
    if rc == 2:
        return 2
    if agg.n == 0:
        print("HARNESS-ERROR no run completed")
        return 2
    return 0


class Aggregate:
    def __init__(self, mod):
        self.mod = mod
        self.n = 0
        self.digests = set()
        self.items = set()
        self.states = set()
        self.counters = {}
        self.probes = {}
        self.faults = {}
        self.sim_s = 0.0
        self.oracle_checks = 0
        self.state_ops = 0
        self.samples = []
        self.unknown = {}
        self.known = {}
        self.hangs = []
        self.seeds = []
        self.n_ops = 0
        self.exhaustive = None

    def add_hang(self, res):
        self.hangs.append(res)

    def add(self, res):
        self.n += 1
        if len(self.seeds) < 50:
            self.seeds.append(res["seed"])
        nontrivial = res["state_ops"] >= 1 and res["oracle_checks"] >= 1
        info = res.get("info") or {}
        if "distinct_items" in info:
            self.items.update(info["distinct_items"])
        elif nontrivial:
            self.digests.add(res["digest"])
        if "exhaustive" in info:
            self.exhaustive = info["exhaustive"] if self.exhaustive is None else (self.exhaustive and info["exhaustive"])
        self.states.update(res.get("states") or [])
        for k, v in (res.get("counters") or {}).items():
            self.counters[k] = self.counters.get(k, 0) + v
        for k, v in (res.get("probes") or {}).items():
            self.probes[k] = self.probes.get(k, 0) + v
        for k, v in (res.get("faults") or {}).items():
            self.faults[k] = self.faults.get(k, 0) + v
        self.sim_s += res.get("sim_s") or 0
        self.oracle_checks += res["oracle_checks"]
        self.state_ops += res["state_ops"]
        self.n_ops += res.get("n_ops") or 0
        if len(self.samples) < 3 and (res.get("trace") or info.get("sample")):
            samp = info.get("sample") or _abridge(res.get("trace"))
            self.samples.append({"seed": res["seed"], "digest": res["digest"], "case": samp})
        for v in res.get("violations") or []:
            if v.get("known"):
                c, ex = self.known.get(v["known"], (0, None))
                self.known[v["known"]] = (c + 1, ex or res["seed"])
            else:
                key = (v["oracle"], json.dumps(v.get("sig"), sort_keys=True, default=str))
                if key not in self.unknown:
                    self.unknown[key] = (res, v)

    def summary(self):
        return {"distinct": len(self.items) if self.items else len(self.digests)}

    def evidence(self, tier, master, wall, runs_wall, n_viol, workers):
        mod = self.mod
        evaluations = self.counters.get("evaluations", self.n) if getattr(mod, "EVALS_FROM_COUNTER", False) else self.n
        cov = {
            "evaluations": int(evaluations),
            "distinct_nontrivial": int(self.summary()["distinct"]),
            "rule": mod.RULE,
            "samples": self.samples or [{"note": "no sample recorded"}],
            "exhaustive": bool(self.exhaustive) if self.exhaustive is not None else False,
            "runs": self.n,
            "runs_per_hour": int(self.n / max(runs_wall, 1e-6) * 3600),
            "evaluations_per_hour": int(evaluations / max(runs_wall, 1e-6) * 3600),
            "master_seed": master,
            "seeds_first": self.seeds[:10],
            "simulated_seconds": round(self.sim_s, 3),
            "operations_executed": self.n_ops,
            "state_changing_operations": self.state_ops,
            "oracle_comparisons": self.oracle_checks,
            "faults_fired": self.faults,
            "counters": self.counters,
            "probes": {p: self.probes.get(p, 0) for p in sorted(set(getattr(mod, "PROBES", [])) | set(self.probes))},
            "distinct_states": len(self.states),
            "state_measure": getattr(mod, "STATE_MEASURE", ""),
            "known_findings_seen": {k: v[0] for k, v in self.known.items()},
            "workers": workers,
            "components": getattr(mod, "COMPONENTS", {}),
            "pythonhashseed": os.environ.get("PYTHONHASHSEED"),
        }
        return {
            "property_id": mod.PROPERTY,
            "tier": tier,
            "seed": int(master),
            "level": mod.LEVEL,
            "coverage": cov,
            "assumptions": list(getattr(mod, "ASSUMPTIONS", [])),
            "wall_s": round(wall, 2),
            "violations": int(n_viol),
        }


def _abridge(trace, n=12):
    if not trace:
        return None
    t = {k: v for k, v in trace.items() if k not in ("ops",) and not k.startswith("_")}
    ops = trace.get("ops") or []
    t["ops"] = ops[:n]
    if len(ops) > n:
        t["ops_total"] = len(ops)
    return t


def write_evidence(mod, ev):
    d = VERIF / "evidence"
    d.mkdir(exist_ok=True)
    p = d / f"{mod.PROPERTY}.json"
    tmp = d / f".{mod.PROPERTY}.json.tmp{os.getpid()}"
    tmp.write_text(json.dumps(ev, indent=1, default=str) + "\n")
    tmp.replace(p)


if __name__ == "__main__":
    sys.exit(main())
