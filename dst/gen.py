"""Reference model of an RT-DC dataset and seeded generators.

A ModelDataset is built from the generator's own arrays, never by reading
through dclab.  Feature values are unique per (dataset uid, feature, event)
where the check needs provenance."""
import copy

import numpy as np

from . import seeds

FLOAT_SCALARS = ["area_um", "deform", "aspect", "area_cvx", "area_msd", "area_ratio",
                 "bright_avg", "bright_sd", "circ", "inert_ratio_cvx", "inert_ratio_raw",
                 "pos_x", "pos_y", "size_x", "size_y", "tilt", "volume", "temp",
                 "fl1_area", "fl1_pos", "fl1_width", "userdef1", "userdef2"]
UINT32_SCALARS = ["fl1_max", "fl2_max", "fl1_npeaks", "nevents", "ml_class"]
TRACES = ["fl1_median", "fl1_raw", "fl2_median", "fl2_raw", "fl3_median", "fl3_raw"]

BASE_META = {
    "experiment": {
        "date": "2020-03-04",
        "run index": 1,
        "sample": "sim sample",
        "time": "10:11:12",
    },
    "imaging": {
        "flash device": "LED (ZMD L1)",
        "flash duration": 2.0,
        "frame rate": 2000.0,
        "pixel size": 0.34,
        "roi position x": 600,
        "roi position y": 500,
        "roi size x": 12,
        "roi size y": 8,
    },
    "setup": {
        "channel width": 20.0,
        "chip region": "channel",
        "flow rate": 0.04,
        "flow rate sample": 0.01,
        "flow rate sheath": 0.03,
        "identifier": "ZMDD-AcC-000000-000000",
        "medium": "CellCarrier",
        "module composition": "AcCellerator",
        "software version": "ShapeIn 2.2.2.4",
    },
}
FL_META = {
    "fluorescence": {
        "bit depth": 16,
        "channel count": 2,
        "channels installed": 3,
        "laser count": 2,
        "lasers installed": 3,
        "sample rate": 312500.0,
        "samples per event": 20,
        "signal max": 1.0,
        "signal min": -1.0,
        "trace median": 0,
        "channel 1 name": "525/50",
        "channel 2 name": "593/46",
        "laser 1 lambda": 488.0,
        "laser 1 power": 8.0,
        "laser 2 lambda": 561.0,
        "laser 2 power": 10.0,
    }
}


class ModelDataset:
    def __init__(self, uid=0):
        self.uid = uid
        self.n = 0
        self.feats = {}      # name -> ndarray | list of (m,2) arrays (contour) | dict (trace)
        self.logs = {}       # name -> [str]
        self.tables = {}     # name -> {"data": structured ndarray, "attrs": {k: v}}
        self.meta = {}       # section -> key -> value
        self.basins = []

    def copy(self):
        return copy.deepcopy(self)

    @property
    def scalar_names(self):
        return [f for f, v in self.feats.items()
                if isinstance(v, np.ndarray) and v.ndim == 1]

    def select(self, idx):
        """Model of 'the same dataset restricted to events idx' (features only)."""
        idx = np.asarray(idx)
        m = ModelDataset(self.uid)
        m.n = len(idx)
        for f, v in self.feats.items():
            if f == "contour":
                m.feats[f] = [v[i] for i in idx]
            elif f == "trace":
                m.feats[f] = {k: a[idx] for k, a in v.items()}
            else:
                m.feats[f] = v[idx]
        m.logs = copy.deepcopy(self.logs)
        m.tables = copy.deepcopy(self.tables)
        m.meta = copy.deepcopy(self.meta)
        return m


def blob_mask(rs, h, w):
    """Connected, hole-free mask (filled ellipse) that does not touch the border."""
    cy = rs.uniform(h * 0.4, h * 0.6)
    cx = rs.uniform(w * 0.4, w * 0.6)
    ry = rs.uniform(1.3, max(1.4, h * 0.5 - 1.6))
    rx = rs.uniform(1.3, max(1.4, w * 0.5 - 1.6))
    yy, xx = np.mgrid[0:h, 0:w]
    m = ((yy - cy) / ry) ** 2 + ((xx - cx) / rx) ** 2 <= 1.0
    if m.sum() < 4:
        m[int(cy) - 1:int(cy) + 1, int(cx) - 1:int(cx) + 1] = True
    m[0, :] = m[-1, :] = False
    m[:, 0] = m[:, -1] = False
    return m


def scalar_values(rs, feat, n, uid=0, nan_mode="none", special=False):
    """Unique-ish scalar data for feature `feat`."""
    base = (seeds.H("feat", feat) % 89) + 1.0
    if feat in UINT32_SCALARS:
        if feat == "ml_class":
            return rs.integers(0, 5, size=n).astype(np.uint32)
        v = rs.integers(0, 60000, size=n).astype(np.uint32)
        if special and n:
            v[rs.integers(0, n)] = np.uint32(2**32 - 1)
            v[rs.integers(0, n)] = 0
        return v
    if feat == "frame":
        return (np.cumsum(rs.integers(1, 30, size=n)) + 100 * uid).astype(np.uint64)
    if feat == "time":
        return np.cumsum(rs.uniform(1e-4, 0.02, size=n)).astype(np.float64)
    if feat == "index_online":
        return np.cumsum(rs.integers(1, 4, size=n)).astype(np.int64)
    if feat == "deform":
        v = rs.uniform(0.001, 0.3, size=n)
    elif feat == "area_um":
        v = rs.uniform(25.0, 250.0, size=n)
    elif feat in ("area_ratio",):
        v = rs.uniform(1.0, 1.1, size=n)
    elif feat == "temp":
        v = rs.uniform(20.0, 30.0, size=n)
    else:
        v = base + rs.uniform(0.0, 10.0, size=n) + uid
    v = v.astype(np.float64)
    if special and n:
        k = rs.integers(0, 6)
        pos = rs.integers(0, n)
        if k == 0:
            v[pos] = np.inf
        elif k == 1:
            v[pos] = -np.inf
        elif k == 2:
            v[pos] = 5e-324
        elif k == 3:
            v[pos] = 1e300
    if n:
        if nan_mode == "first":
            v[:max(1, n // 3)] = np.nan
        elif nan_mode == "some":
            v[rs.random(n) < 0.3] = np.nan
        elif nan_mode == "all":
            v[:] = np.nan
        elif nan_mode == "one":
            v[rs.integers(0, n)] = np.nan
    return v


def gen_model(seed, n, uid=0, shape=(8, 12), scalars=None, image=True, mask=True,
              contour=False, trace=False, fl=False, n_logs=1, n_tables=0,
              nan_mode="none", special=False, meta_extra=None, long_logs=False):
    rs = seeds.np_rng(seed, "model")
    pr = seeds.rng(seed, "model-py")
    m = ModelDataset(uid)
    m.n = n
    h, w = shape
    if scalars is None:
        scalars = ["area_um", "deform", "bright_avg", "pos_x", "time", "frame", "index_online"]
    for f in scalars:
        # (no NaN centroids: pos_x/pos_y are derived from the contour in real data; a NaN centroid next to a stored contour
        #  makes the volume computation fail an internal assertion - an inconsistent input, not a layout)
        nm = nan_mode if (f in FLOAT_SCALARS and f not in ("area_um", "deform", "pos_x", "pos_y")) else "none"
        m.feats[f] = scalar_values(rs, f, n, uid, nm, special and f in FLOAT_SCALARS and f not in ("pos_x", "pos_y"))
    masks = None
    if mask or contour:
        masks = np.array([blob_mask(rs, h, w) for _ in range(n)], dtype=bool).reshape(n, h, w)
    if image:
        img = rs.integers(1, 255, size=(n, h, w)).astype(np.uint8)
        m.feats["image"] = img
    if mask:
        m.feats["mask"] = masks
    if contour:
        cs = []
        for i in range(n):
            k = int(rs.integers(4, 12))
            cs.append(rs.integers(0, min(h, w), size=(k, 2)).astype(np.int32))
        m.feats["contour"] = cs
    if trace:
        ns = 20
        names = ["fl1_median", "fl1_raw", "fl2_median", "fl2_raw"] if not isinstance(trace, (list, tuple)) else list(trace)
        m.feats["trace"] = {k: rs.integers(-300, 3000, size=(n, ns)).astype(np.int16) for k in names}
    if fl:
        for f in ("fl1_max", "fl2_max"):
            m.feats[f] = scalar_values(rs, f, n, uid)
    m.meta = copy.deepcopy(BASE_META)
    m.meta["imaging"]["roi size x"] = w
    m.meta["imaging"]["roi size y"] = h
    if fl or trace:
        m.meta.update(copy.deepcopy(FL_META))
    if meta_extra:
        for sec, d in meta_extra.items():
            m.meta.setdefault(sec, {}).update(d)
    for i in range(n_logs):
        m.logs[f"log{i}"] = gen_log_lines(pr, pr.randint(1, 6), long_logs)
    for i in range(n_tables):
        m.tables[f"tab{i}"] = gen_table(rs, pr)
    return m


_WORDS = ["alpha", "beta", "gämma", "δelta", "émission", "π", "ok", "flow", "rate", "µm", "値", "x=1.5", "}{", "  pad"]


def gen_log_lines(pr, nlines, long_lines=False, maxlen=90):
    lines = []
    for _ in range(nlines):
        target = pr.randint(0, maxlen)
        if long_lines and pr.random() < 0.3:
            target = pr.randint(95, 160)
        if long_lines and pr.random() < 0.25:
            # more than 100 bytes but fewer than 100 characters (multi-byte characters only)
            k = pr.randint(51, 90)
            lines.append(pr.choice(["µ", "δ", "ä", "値"]) * k)
            continue
        s = ""
        while len(s.encode("utf-8")) < target:
            s += pr.choice(_WORDS) + " "
        s = s.strip()
        # HDF5 fixed-length strings cannot hold trailing NULs / we avoid trailing spaces ambiguity
        lines.append(s if s else "x")
    return lines


def gen_table(rs, pr):
    ncol = pr.randint(1, 4)
    nrow = pr.randint(1, 7)
    names = [f"col{j}" for j in range(ncol)]
    dt = np.dtype({"names": names, "formats": [np.float64] * ncol})
    arr = np.zeros(nrow, dtype=dt)
    for nme in names:
        arr[nme] = rs.uniform(-5, 5, size=nrow)
    attrs = {}
    if pr.random() < 0.6:
        attrs["COLOR_alpha"] = "blue"
        attrs["gain"] = float(pr.randint(1, 9))
    return {"data": arr, "attrs": attrs}


def write_model(model, path, compression="zstd", mode="reset", parts=None, meta=True):
    """Write a model with dclab's own writer (used to produce *inputs*)."""
    import hdf5plugin
    from dclab.rtdc_dataset.writer import RTDCWriter
    if compression == "zstd":
        ckw = hdf5plugin.Zstd(clevel=5)
    elif compression == "zstd1":
        ckw = None
    elif compression == "gzip":
        ckw = {"compression": "gzip", "compression_opts": 4}
    else:
        ckw = {"compression": None}
    with RTDCWriter(path, mode=mode, compression_kwargs=ckw) as hw:
        if meta:
            hw.store_metadata(model.meta)
        for f, v in model.feats.items():
            hw.store_feature(f, v)
        for name, lines in model.logs.items():
            hw.store_log(name, lines)
        for name, t in model.tables.items():
            hw.store_table(name, np.rec.array(t["data"]))
            if t["attrs"]:
                for k, val in t["attrs"].items():
                    hw.h5file["tables"][name].attrs[k] = val
    return path


def unzip_fixture(name, dest):
    """Extract one of the repository's shipped test fixtures (tests/data/<name>.zip)."""
    import os
    import pathlib
    import zipfile
    repo = pathlib.Path(os.environ.get("VERIF_REPO", "/repo"))
    z = repo / "tests" / "data" / (name + ".zip")
    dest = pathlib.Path(dest)
    dest.mkdir(parents=True, exist_ok=True)
    with zipfile.ZipFile(z) as zf:
        zf.extractall(dest)
    return dest
