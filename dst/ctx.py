"""Run context: event log, digest, counters, probes, violations, op recording."""
import hashlib
import json
import pathlib
import traceback

from . import seeds, findings


class StopRun(Exception):
    """Raised to end a run after a fatal violation."""


class RunContext:
    def __init__(self, check, prop, seed, tier, scratch, trace):
        self.check = check
        self.prop = prop
        self.seed = seed
        self.tier = tier
        self.scratch = pathlib.Path(scratch)
        self.trace = trace
        self.replaying = "ops" in trace and trace.get("ops") is not None
        if not self.replaying:
            trace["ops"] = []
        self._op_pos = 0
        self._rngs = {}
        self._log = hashlib.sha256()
        self.seq = 0
        self.log_tail = []
        self.counters = {}
        self.probes = {}
        self.states = set()
        self.faults = {}
        self.violations = []
        self.oracle_checks = 0
        self.state_ops = 0
        self.sim_s = 0.0
        self.clock = None
        self.info = {}
        self.keep_log = bool(trace.get("_keep_log"))
        self.full_log = []

    # ---- randomness -------------------------------------------------
    def rng(self, label):
        if label not in self._rngs:
            self._rngs[label] = seeds.rng(self.seed, label)
        return self._rngs[label]

    def np_rng(self, label):
        return seeds.np_rng(self.seed, label)

    # ---- ops: generate-and-record or replay ---------------------------
    def next_op(self, gen_fn, max_ops=None):
        """Return the next operation.

        Generation mode: call gen_fn(rng) (may return None to end) and record
        it.  Replay mode: return the next recorded operation, None at the end.
        """
        ops = self.trace["ops"]
        if self.replaying:
            if self._op_pos >= len(ops):
                return None
            op = ops[self._op_pos]
            self._op_pos += 1
            return op
        if max_ops is not None and len(ops) >= max_ops:
            return None
        op = gen_fn(self.rng("ops"))
        if op is None:
            return None
        # make sure that what is replayed is what was executed (JSON round trip)
        op = json.loads(json.dumps(op))
        ops.append(op)
        return op

    # ---- event log ---------------------------------------------------
    def log(self, actor, label, res=None):
        self.seq += 1
        line = f"{self.seq}|{actor}|{label}|{'' if res is None else res}"
        self._log.update(line.encode("utf-8", "replace"))
        self._log.update(b"\n")
        self.log_tail.append(line)
        if len(self.log_tail) > 40:
            del self.log_tail[0]
        if self.keep_log:
            self.full_log.append(line)

    def digest(self):
        return self._log.hexdigest()[:32]

    # ---- coverage ----------------------------------------------------
    def count(self, name, n=1):
        self.counters[name] = self.counters.get(name, 0) + n

    def probe(self, name, n=1):
        self.probes[name] = self.probes.get(name, 0) + n

    def state(self, *parts):
        self.states.add("|".join(str(p) for p in parts))

    def fault(self, kind, n=1):
        self.faults[kind] = self.faults.get(kind, 0) + n

    def checked(self, n=1):
        self.oracle_checks += n

    # ---- violations --------------------------------------------------
    def violation(self, oracle, detail, sig=None, fatal=True, trace=None):
        sig = dict(sig or {})
        v = {"oracle": oracle, "detail": str(detail)[:2000], "sig": sig}
        kf = findings.match(self.prop, v)
        if kf is not None:
            v["known"] = kf
        if trace is not None:
            v["trace"] = trace
        self.violations.append(v)
        self.log("oracle", "VIOLATION " + oracle, seeds.short_hash(sig))
        if fatal:
            raise StopRun()

    class _Sut:
        def __init__(self, ctx, oracle, allow, sig, fatal):
            self.ctx, self.oracle, self.allow, self.sig, self.fatal = ctx, oracle, allow, sig, fatal
            self.exc = None

        def __enter__(self):
            return self

        def __exit__(self, et, ev, tb):
            if et is None:
                return False
            if issubclass(et, StopRun):
                return False
            if self.allow and issubclass(et, self.allow):
                self.exc = ev
                return True
            if not issubclass(et, Exception) and et.__name__ not in ("OldFormatNotSupportedError",):
                return False
            # innermost frame that belongs to dclab
            where = "?"
            for fs in reversed(traceback.extract_tb(tb)):
                if "/dclab/" in fs.filename:
                    where = fs.filename.split("/dclab/", 1)[1] + ":" + fs.name
                    break
            sig = dict(self.sig or {})
            sig.update({"exc": et.__name__, "where": where})
            tbs = "".join(traceback.format_exception(et, ev, tb))[-1500:]
            try:
                self.ctx.violation(self.oracle, f"unexpected {et.__name__}: {ev}\n{tbs}", sig=sig, fatal=self.fatal)
            except StopRun:
                raise StopRun() from None
            self.exc = ev
            return True

    def sut(self, oracle, allow=None, sig=None, fatal=True):
        """Context manager around calls into dclab that the model says must
        succeed: an exception becomes a violation of `oracle` (+ where it was
        raised).  Exception types in `allow` are swallowed and stored in .exc."""
        return RunContext._Sut(self, oracle, allow, sig, fatal)

    # ---- result ------------------------------------------------------
    def result(self):
        return {
            "seed": self.seed,
            "digest": self.digest(),
            "violations": self.violations,
            "counters": self.counters,
            "probes": self.probes,
            "states": sorted(self.states)[:4000],
            "faults": self.faults,
            "oracle_checks": self.oracle_checks,
            "state_ops": self.state_ops,
            "sim_s": self.sim_s,
            "n_ops": len(self.trace.get("ops") or []),
            "info": self.info,
            "log_tail": self.log_tail[-12:] if self.violations else [],
            "full_log": self.full_log if self.keep_log else None,
        }
