"""Seeded scheduler for real threads (baton passing).

Exactly one managed thread runs at any time; at every yield point (simulated
network event, SimLock acquire/release, thread start/exit, explicit yields of
the workload, and - optionally - `sys.settrace` line events in selected dclab
files) the PRNG chooses which runnable thread continues.  The *choice* is
simulated, the threads are real.  One seed = one schedule."""
import sys
import threading as _real_threading
import types


class DeadlockError(BaseException):
    """No runnable thread while some are blocked (BaseException: must not be swallowed by `except Exception`)."""


class StepBudgetExceeded(BaseException):
    """The run exceeded its budget of scheduling steps (termination oracle)."""


class _T:
    def __init__(self, tid, name):
        self.tid = tid
        self.name = name
        self.state = "runnable"     # runnable | blocked | done
        self.blocked_on = None
        self.exc = None
        self.thread = None


def _in_h5py_callback():
    """True if the current call stack passes through h5py (we must not park a thread that holds h5py's global lock)."""
    f = sys._getframe(2)
    depth = 0
    while f is not None and depth < 60:
        fn = f.f_code.co_filename
        if "/h5py/" in fn:
            return True
        f = f.f_back
        depth += 1
    return False


class Sched:
    def __init__(self, ctx, rng, trace_files=(), trace_rate=0.0, max_steps=200000):
        self.ctx = ctx
        self.rng = rng
        self.cv = _real_threading.Condition()
        self.threads = {}
        self.by_ident = {}
        self.next_tid = 0
        self.current = None
        self.steps = 0
        self.switches = 0
        self.max_steps = max_steps
        self.trace_files = tuple(trace_files)
        self.trace_rate = trace_rate
        self.enabled = True
        self.lock_owner_log = []
        main = self._register("main")
        main.thread = _real_threading.current_thread()
        self.by_ident[_real_threading.get_ident()] = main
        self.current = main.tid
        if self.trace_files and self.trace_rate > 0:
            sys.settrace(self._tracer)

    # ---- bookkeeping ----
    def _register(self, name):
        t = _T(self.next_tid, name)
        self.next_tid += 1
        self.threads[t.tid] = t
        return t

    def me(self):
        return self.by_ident.get(_real_threading.get_ident())

    def _candidates(self):
        out = []
        for t in self.threads.values():
            if t.state == "runnable":
                out.append(t.tid)
            elif t.state == "blocked" and t.blocked_on is not None and t.blocked_on.owner is None:
                out.append(t.tid)
        return sorted(out)

    # ---- the scheduling decision ----
    def yield_point(self, label="", may_block=False):
        if not self.enabled:
            return
        me = self.me()
        if me is None:
            return   # unmanaged thread (should not happen)
        if _in_h5py_callback():
            return
        with self.cv:
            self._switch(me, label)

    def _switch(self, me, label):
        """Called with cv held by the thread that owns the baton."""
        self.steps += 1
        if self.steps > self.max_steps:
            raise StepBudgetExceeded(f"more than {self.max_steps} scheduling steps")
        cands = self._candidates()
        if not cands:
            self.enabled = False
            raise DeadlockError("no runnable thread: " + self.describe())
        if len(cands) == 1 and cands[0] == me.tid:
            return
        nxt = cands[self.rng.randrange(len(cands))] if len(cands) > 1 else cands[0]
        if len(cands) > 1:
            self.ctx.log("sched", f"{label[:40]} -> T{nxt}", len(cands))
        if nxt == me.tid:
            return
        self.switches += 1
        self.current = nxt
        self.cv.notify_all()
        while self.current != me.tid:
            self.cv.wait()

    def describe(self):
        return "; ".join(f"T{t.tid}:{t.name}:{t.state}" + (f"(waits for lock held by T{t.blocked_on.owner})" if t.blocked_on is not None and t.state == "blocked" else "")
                         for t in self.threads.values())

    # ---- threads ----
    def spawn(self, fn, name):
        t = self._register(name)
        sched = self

        def body():
            sched.by_ident[_real_threading.get_ident()] = t
            with sched.cv:
                while sched.current != t.tid:
                    sched.cv.wait()
            if sched.trace_files and sched.trace_rate > 0:
                sys.settrace(sched._tracer)
            try:
                fn()
            except BaseException as e:   # noqa
                t.exc = e
            finally:
                sys.settrace(None)
                with sched.cv:
                    t.state = "done"
                    sched.ctx.log("sched", f"T{t.tid} exit", type(t.exc).__name__ if t.exc else "")
                    cands = sched._candidates()
                    if cands:
                        sched.current = cands[sched.rng.randrange(len(cands))] if len(cands) > 1 else cands[0]
                        sched.cv.notify_all()
                    else:
                        # everybody else is blocked: wake them so that they can detect the deadlock
                        sched.current = -1
                        sched.cv.notify_all()
        th = _real_threading.Thread(target=body, daemon=True, name=f"sim-T{t.tid}")
        t.thread = th
        th.start()
        self.yield_point(f"spawn {name}")
        return t

    def join(self, t, timeout=None):
        """Virtual join: yield until the thread is done or the virtual deadline passed."""
        clock = self.ctx.clock
        deadline = None if timeout is None else clock.now + timeout
        spins = 0
        while t.state != "done":
            if deadline is not None and clock.now >= deadline:
                return False
            spins += 1
            if spins > 50:
                # nobody advances the clock (e.g. the target is blocked): the timeout elapses
                if deadline is not None:
                    clock.advance(max(0.0, deadline - clock.now))
                    return False
            self.yield_point("join")
            if deadline is not None and spins > 3 and self.me() is not None and len(self._candidates()) == 1:
                clock.advance(max(0.0, deadline - clock.now))
                return t.state == "done"
        return True

    # ---- tracing (line-level pre-emption) ----
    def _tracer(self, frame, event, arg):
        if event != "call":
            return None
        fn = frame.f_code.co_filename
        for suf in self.trace_files:
            if fn.endswith(suf):
                return self._line_tracer
        return None

    def _line_tracer(self, frame, event, arg):
        if event == "line" and self.enabled and self.rng.random() < self.trace_rate:
            self.yield_point(f"line {frame.f_code.co_name}:{frame.f_lineno}")
        return self._line_tracer

    def finish(self):
        sys.settrace(None)
        self.enabled = False


class SimLock:
    """Non-reentrant lock whose blocking is a scheduling event."""

    def __init__(self, sched):
        self.sched = sched
        self.owner = None

    def acquire(self, blocking=True, timeout=-1):
        s = self.sched
        me = s.me()
        if me is None or not s.enabled:
            self.owner = -2
            return True
        s.yield_point("lock.acquire")
        with s.cv:
            while self.owner is not None:
                if not blocking:
                    return False
                me.state = "blocked"
                me.blocked_on = self
                s._switch_blocked(me)
            me.state = "runnable"
            me.blocked_on = None
            self.owner = me.tid
        return True

    def release(self):
        self.owner = None
        self.sched.yield_point("lock.release")

    def __enter__(self):
        self.acquire()
        return self

    def __exit__(self, *a):
        self.release()
        return False

    def locked(self):
        return self.owner is not None


def _switch_blocked(self, me):
    """me is blocked on a lock: hand the baton to somebody else or report the deadlock (cv held)."""
    self.steps += 1
    if self.steps > self.max_steps:
        raise StepBudgetExceeded(f"more than {self.max_steps} scheduling steps")
    cands = [c for c in self._candidates() if c != me.tid]
    if not cands:
        self.enabled = False
        raise DeadlockError("deadlock: " + self.describe())
    nxt = cands[self.rng.randrange(len(cands))] if len(cands) > 1 else cands[0]
    self.ctx.log("sched", f"blocked -> T{nxt}", len(cands))
    self.switches += 1
    self.current = nxt
    self.cv.notify_all()
    while self.current != me.tid:
        if self.current == -1:
            self.enabled = False
            raise DeadlockError("deadlock: " + self.describe())
        self.cv.wait()


Sched._switch_blocked = _switch_blocked


class ThreadingShim(types.ModuleType):
    """Stand-in for the `threading` module as seen by dclab.rtdc_dataset.feat_basin."""

    def __init__(self, sched):
        super().__init__("threading")
        self._sched = sched
        self.Thread = _real_threading.Thread
        self.current_thread = _real_threading.current_thread
        self.get_ident = _real_threading.get_ident

    def Lock(self):
        return SimLock(self._sched)

    def RLock(self):
        return _real_threading.RLock()


def install_basin_threads(sched, mode="thread"):
    """Replace feat_basin.BasinAvailabilityChecker (looked up at call time in Basin.__init__) and
    feat_basin.threading.  mode: 'thread' (scheduled real thread), 'inline' (runs to completion at
    start), 'never' (the thread never gets CPU time before the caller is done)."""
    import dclab.rtdc_dataset.feat_basin as fb

    class SimChecker:
        def __init__(self, basin, *a, **k):
            self.basin = basin
            self._t = None
            self.daemon = True

        def run(self):
            self.basin.is_available()

        def start(self):
            m = mode
            if m == "mixed":
                m = ("thread", "thread", "inline", "never")[sched.rng.randrange(4)]
            sched.ctx.count("checker_" + m)
            if m == "inline":
                try:
                    self.run()
                except BaseException as e:   # a thread's exception never reaches the caller
                    sched.ctx.count("checker_thread_exception_" + type(e).__name__)
            elif m == "thread":
                self._t = sched.spawn(self._run_guarded, f"avcheck")

        def _run_guarded(self):
            try:
                self.run()
            except (DeadlockError, StepBudgetExceeded):
                raise
            except BaseException as e:
                sched.ctx.count("checker_thread_exception_" + type(e).__name__)

        def join(self, timeout=None):
            if self._t is not None:
                sched.join(self._t, timeout)

        def is_alive(self):
            return self._t is not None and self._t.state != "done"

    fb.BasinAvailabilityChecker = SimChecker
    fb.threading = ThreadingShim(sched)
    return SimChecker
