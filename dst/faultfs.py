"""Fault seam at the h5py / pathlib call boundary.

Every intercepted (outermost) mutating call is a numbered fault point with a
label.  A fault plan {k: kind} decides what happens at point k:

  err_before   raise OSError instead of performing the call
  err_after    perform the call, then raise OSError (lost acknowledgement)
  kill_before  os._exit(137) before the call (no cleanup, no HDF5 flush)
  kill_after   os._exit(137) right after the call returned
  intr_before  raise KeyboardInterrupt instead of performing the call (Ctrl-C / SIGINT delivered at this point)
  err_persist  like err_before, and every later fault point that writes, creates, flushes or closes fails the same way
               (a disk that is full stays full: clean-up code fails, too; rename and unlink keep working);
               err_persist_w: the same, but closing files keeps working as well
  err_burst<n> this call and the next n-1 intercepted calls fail, then the device works again
  torn_close   the close of a writable file flushes only half of the file and fails (ENOSPC): a torn write
"""
import errno
import os
import pathlib

import h5py
import h5py.h5o

ERRNOS = [errno.EIO, errno.ENOSPC, errno.EDQUOT, errno.EACCES]


class InjectedIOError(OSError):
    pass


class FaultSeam:
    def __init__(self, plan=None, on_point=None, errno_pick=0):
        self.plan = {int(k): v for k, v in (plan or {}).items()}
        self.n = 0
        self.depth = 0
        self.labels = []
        self.fired = []
        self.on_point = on_point
        self.errno_pick = errno_pick
        self.enabled = False
        self._orig = []

    # ---- core ----
    def _point(self, label, call):
        if not self.enabled or self.depth > 0:
            return call()
        k = self.n
        self.n += 1
        self.labels.append(label)
        kind = self.plan.get(k)
        if kind is not None and kind.startswith("err_burst"):
            # this call and the following n-1 intercepted calls fail (an error in a block followed by an error in its clean-up)
            self.burst = int(kind[len("err_burst"):] or 2)
        if getattr(self, "burst", 0) > 0:
            self.burst -= 1
            kind = "err_before"
        if kind in ("err_persist", "err_persist_w"):
            self.persist = kind
        if getattr(self, "persist", None) and kind in (None, "err_persist", "err_persist_w"):
            # (renaming or removing a file needs no space: those keep working on a full disk; in the _w variant closing
            #  a file - nothing left to flush - works as well)
            spared = ("path.",) if self.persist == "err_persist" else ("path.", "file.close")
            kind = "err_before" if (kind is not None or not label.startswith(spared)) else None
        if self.on_point is not None:
            self.on_point(k, label)
        if kind == "kill_before":
            os._exit(137)
        if kind == "intr_before":
            self.fired.append((k, kind, label))
            raise KeyboardInterrupt(f"injected fault before {label}")
        if kind == "err_before":
            self.fired.append((k, kind, label))
            raise InjectedIOError(ERRNOS[self.errno_pick % len(ERRNOS)], f"injected fault before {label}")
        self.depth += 1
        try:
            res = call()
        finally:
            self.depth -= 1
        if kind == "kill_after":
            os._exit(137)
        if kind == "torn_close":
            # the flush behind close() ran out of space half-way: the call "happened", half of the file is on disk and the
            # error is reported (for calls other than the close of a writable file this is err_after)
            self.fired.append((k, kind, label))
            pth = getattr(self, "_last_close_path", None)
            if label.startswith("file.close[") and not label.startswith("file.close[r]") and pth and os.path.exists(pth):
                with open(pth, "r+b") as fh:
                    fh.truncate(max(1, os.path.getsize(pth) // 2))
            raise InjectedIOError(errno.ENOSPC, f"injected fault: torn {label}")
        if kind == "err_after":
            self.fired.append((k, kind, label))
            raise InjectedIOError(ERRNOS[self.errno_pick % len(ERRNOS)], f"injected fault after {label}")
        return res

    @staticmethod
    def _fname(obj):
        try:
            return os.path.basename(obj.file.filename)
        except Exception:
            return "?"

    def _wrap(self, owner, attr, labeller):
        orig = getattr(owner, attr)
        seam = self

        def wrapper(*a, **kw):
            if not seam.enabled or seam.depth > 0:
                return orig(*a, **kw)
            try:
                label = labeller(*a, **kw)
            except Exception:
                label = attr
            if label is None:
                return orig(*a, **kw)
            return seam._point(label, lambda: orig(*a, **kw))
        wrapper.__name__ = getattr(orig, "__name__", attr)
        wrapper.__wrapped__ = orig
        self._orig.append((owner, attr, orig))
        setattr(owner, attr, wrapper)

    # ---- installation ----
    def install(self):
        fn = self._fname
        D, G, A, F = h5py.Dataset, h5py.Group, h5py.AttributeManager, h5py.File
        self._wrap(D, "__setitem__", lambda s, *a, **k: f"ds.setitem {s.name} @{fn(s)}")
        self._wrap(D, "resize", lambda s, *a, **k: f"ds.resize {s.name} @{fn(s)}")
        self._wrap(D, "write_direct", lambda s, *a, **k: f"ds.write_direct {s.name} @{fn(s)}")
        self._wrap(G, "create_dataset", lambda s, name=None, *a, **k: f"grp.create_dataset {s.name.rstrip('/')}/{name} @{fn(s)}")
        self._wrap(G, "create_group", lambda s, name, *a, **k: f"grp.create_group {s.name.rstrip('/')}/{name} @{fn(s)}")
        self._wrap(G, "require_group", self._label_require_group)
        self._wrap(G, "__setitem__", lambda s, name, *a, **k: f"grp.link {s.name.rstrip('/')}/{name} @{fn(s)}")
        self._wrap(G, "__delitem__", lambda s, name, *a, **k: f"grp.del {s.name.rstrip('/')}/{name} @{fn(s)}")
        self._wrap(G, "copy", lambda s, *a, **k: f"grp.copy @{fn(s)}")
        self._wrap(G, "move", lambda s, *a, **k: f"grp.move @{fn(s)}")
        self._wrap(A, "__setitem__", lambda s, name, *a, **k: f"attr.set {name}")
        self._wrap(A, "create", lambda s, name, *a, **k: f"attr.create {name}")
        self._wrap(A, "modify", lambda s, name, *a, **k: f"attr.modify {name}")
        self._wrap(A, "__delitem__", lambda s, name, *a, **k: f"attr.del {name}")
        self._wrap(h5py.h5o, "copy", lambda *a, **k: "h5o.copy " + (k.get("dst_name") or b"?").decode())
        self._wrap(F, "__init__", self._label_file_init)
        self._wrap(F, "flush", lambda s, *a, **k: f"file.flush {fn(s)}")
        self._wrap(F, "close", self._label_file_close)
        P = pathlib.Path
        self._wrap(P, "rename", lambda s, t, *a, **k: f"path.rename {s.name} -> {pathlib.Path(t).name}")
        self._wrap(P, "replace", lambda s, t, *a, **k: f"path.replace {s.name} -> {pathlib.Path(t).name}")
        self._wrap(P, "unlink", lambda s, *a, **k: f"path.unlink {s.name}")
        self._wrap(P, "mkdir", lambda s, *a, **k: f"path.mkdir {s.name}")
        self._wrap(P, "touch", lambda s, *a, **k: f"path.touch {s.name}")
        self._wrap(P, "write_text", lambda s, *a, **k: f"path.write_text {s.name}")
        self._wrap(P, "write_bytes", lambda s, *a, **k: f"path.write_bytes {s.name}")
        for name in ("rename", "replace", "unlink", "remove"):
            self._wrap(os, name, lambda *a, _n=name, **k: f"os.{_n} {os.path.basename(str(a[0]))}")
        import shutil
        for name in ("move", "copy", "copy2", "copyfile"):
            self._wrap(shutil, name, lambda *a, _n=name, **k: f"shutil.{_n} {os.path.basename(str(a[0]))}")
        self.enabled = True
        return self

    def uninstall(self):
        self.enabled = False
        for owner, attr, orig in reversed(self._orig):
            setattr(owner, attr, orig)
        self._orig = []

    def _label_require_group(self, s, name, *a, **k):
        # only a mutation if the group does not exist yet
        exists = name in s
        return f"grp.require_group{'' if not exists else '(exists)'} {s.name.rstrip('/')}/{name} @{self._fname(s)}"

    @staticmethod
    def _label_file_init(s, name=None, mode="r", *a, **k):
        if isinstance(name, h5py.h5f.FileID) or not isinstance(name, (str, bytes, os.PathLike)):
            # File(obj.id) as created by the `.file` property, or a python file object: no I/O
            return None
        base = os.path.basename(os.fspath(name))
        if isinstance(base, bytes):
            base = base.decode()
        return f"file.open[{mode}] {base}"

    def _label_file_close(self, s, *a, **k):
        try:
            if not s.id.valid:
                return "file.close (already closed)"
            self._last_close_path = s.filename
            return f"file.close[{s.mode}] {os.path.basename(s.filename)}"
        except Exception:
            return "file.close ?"


class ReadFaultSeam:
    """Transient faults on the *read* side of the h5py boundary (round 6).

    Every outermost `Dataset.__getitem__`, `Dataset.__array__`, `Dataset.read_direct`, `Dataset.__len__`-free data read and
    `AttributeManager.__getitem__` is a numbered read point while the seam is armed.  `arm(k, kind)` makes the k-th point
    from now on fail once (`err`: OSError as of a flaky disk / network file system, `intr`: KeyboardInterrupt), after which
    the device works again.  The caller then retries; the oracle is "a retry may fail, it never returns wrong data".
    Nothing is intercepted while disarmed (the wrappers are pass-through)."""

    def __init__(self, on_fire=None):
        self.left = None
        self.kind = None
        self.depth = 0
        self.fired = []
        self.points = 0
        self.on_fire = on_fire
        self.only = None
        self._orig = []

    def arm(self, k, kind="err", only=None):
        self.left, self.kind, self.points, self.only = int(k), kind, 0, only

    def disarm(self):
        hit = self.left is not None and self.left < 0
        self.left = None
        return hit

    def _wrap(self, owner, attr, labeller):
        orig = getattr(owner, attr)
        seam = self

        def wrapper(*a, **kw):
            if seam.left is None or seam.left < 0 or seam.depth > 0:
                return orig(*a, **kw)
            try:
                label = labeller(*a, **kw)
            except Exception:
                label = attr
            if seam.only is not None and seam.only not in label:
                return orig(*a, **kw)
            seam.points += 1
            if seam.left == 0:
                seam.left = -1
                seam.fired.append((seam.kind, label))
                if seam.on_fire is not None:
                    seam.on_fire(seam.kind, label)
                if seam.kind == "intr":
                    raise KeyboardInterrupt(f"injected interrupt at {label}")
                raise InjectedIOError(errno.EIO, f"injected read fault at {label}")
            seam.left -= 1
            seam.depth += 1
            try:
                return orig(*a, **kw)
            finally:
                seam.depth -= 1
        wrapper.__name__ = getattr(orig, "__name__", attr)
        wrapper.__wrapped__ = orig
        self._orig.append((owner, attr, orig))
        setattr(owner, attr, wrapper)

    def install(self):
        D, A = h5py.Dataset, h5py.AttributeManager
        self._wrap(D, "__getitem__", lambda s, *a, **k: f"ds.getitem {s.name}")
        self._wrap(D, "__array__", lambda s, *a, **k: f"ds.array {s.name}")
        self._wrap(D, "read_direct", lambda s, *a, **k: f"ds.read_direct {s.name}")
        self._wrap(A, "__getitem__", lambda s, name, *a, **k: f"attr.get {name}")
        return self

    def uninstall(self):
        self.left = None
        for owner, attr, orig in reversed(self._orig):
            setattr(owner, attr, orig)
        self._orig = []
