"""Structural digest / structural dump of an HDF5 file through raw h5py."""
import hashlib
import re

import h5py
import numpy as np


_ADDR = re.compile(rb" at 0x[0-9a-fA-F]+")
#: scratch directory of the current run (set by the driver): paths below it that end up in recorded
#: warning messages must not make structural digests depend on the process id
SCRATCH = None


def _norm(b):
    b = _ADDR.sub(b" at 0xADDR", b)
    if SCRATCH:
        b = b.replace(SCRATCH, b"<SCRATCH>")
    return b


def _val_bytes(v):
    if isinstance(v, np.ndarray) and v.dtype.kind == "S":
        # object addresses inside recorded warning messages (repr of a dataset) are the one
        # source of nondeterminism that no seam controls: normalise them
        return str(v.dtype).encode() + str(v.shape).encode() + _norm(b"\n".join(v.ravel().tolist()))
    if isinstance(v, np.ndarray):
        if v.dtype.kind == "O":
            return repr([x if not isinstance(x, bytes) else x.decode("utf-8", "replace") for x in v.ravel().tolist()]).encode()
        return str(v.dtype).encode() + str(v.shape).encode() + np.ascontiguousarray(v).tobytes()
    if isinstance(v, np.generic):
        return str(v.dtype).encode() + v.tobytes()
    if isinstance(v, bytes):
        return b"b" + _norm(v)
    return _norm(repr(v).encode("utf-8", "replace"))


def h5_items(path):
    """Yield (name, kind, payload-bytes) for every object and attribute, sorted."""
    out = []
    with h5py.File(path, "r") as h:
        def attrs_of(name, obj):
            for k in sorted(obj.attrs.keys()):
                out.append((f"{name}@{k}", "attr", _val_bytes(obj.attrs[k])))

        attrs_of("/", h)

        def visit(name, link_obj):
            obj = link_obj
            if isinstance(obj, h5py.Dataset):
                data = obj[()] if obj.shape != () or True else obj[()]
                out.append((name, "dataset", str(obj.dtype).encode() + str(obj.shape).encode() + _val_bytes(np.asarray(data))))
            else:
                out.append((name, "group", b""))
            attrs_of(name, obj)
        h.visititems(visit)
    out.sort(key=lambda t: (t[0], t[1]))
    return out


def h5_digest(path):
    hs = hashlib.sha256()
    for name, kind, payload in h5_items(path):
        hs.update(name.encode("utf-8", "replace"))
        hs.update(b"\0")
        hs.update(kind.encode())
        hs.update(b"\0")
        hs.update(hashlib.sha256(payload).digest())
    return hs.hexdigest()[:24]


def h5_diff(path_a, path_b, limit=6):
    a = {(n, k): hashlib.sha256(p).hexdigest() for n, k, p in h5_items(path_a)}
    b = {(n, k): hashlib.sha256(p).hexdigest() for n, k, p in h5_items(path_b)}
    diffs = []
    for key in sorted(set(a) | set(b)):
        if a.get(key) != b.get(key):
            diffs.append(f"{key[1]} {key[0]}: {'missing' if key not in a else 'present'} vs {'missing' if key not in b else 'present'}"
                         if (key not in a or key not in b) else f"{key[1]} {key[0]} differs")
        if len(diffs) >= limit:
            break
    return diffs


def file_sha(path):
    hs = hashlib.sha256()
    with open(path, "rb") as f:
        while True:
            b = f.read(1 << 20)
            if not b:
                break
            hs.update(b)
    return hs.hexdigest()[:24]
