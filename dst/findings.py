"""Known findings: read-only at run time.

/verif/known_findings.json lists genuine defects of dclab found by this
machinery.  status "known": not repaired; a violation whose oracle and
signature facts match is printed as KNOWN-FINDING and does not affect the exit
code.  status "fixed": repaired by a "fix:" commit in /repo; suppresses
nothing (kept as record).
"""
import json
import pathlib

_PATH = pathlib.Path(__file__).resolve().parent.parent / "known_findings.json"
_cache = None


def load():
    global _cache
    if _cache is None:
        if _PATH.exists():
            _cache = json.loads(_PATH.read_text()).get("findings", [])
        else:
            _cache = []
    return _cache


def match(prop, v):
    """Return the id of the listed (status=known) finding that explains
    violation record `v`, or None."""
    sig = v.get("sig") or {}
    for f in load():
        if f.get("status") != "known" or f.get("property") != prop:
            continue
        if f.get("oracle") != v.get("oracle"):
            continue
        m = f.get("match") or {}
        if all(sig.get(k) == val for k, val in m.items()):
            return f["id"]
    return None


def by_id(fid):
    for f in load():
        if f.get("id") == fid:
            return f
    return None
