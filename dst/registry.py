"""Single source of truth for what is claimed (feeds tools/mkmanifest.py and dst/cli.py)."""

HOOK_COMMITS = []

NOTES = ("Technique family: deterministic simulation with fault injection. "
         "See DESIGN.md. Exit codes of bin/check: 0 held, 1 VIOLATION, 2 harness error.")

_PURE = "pure function of in-memory numeric input; no schedule, clock, fault, interleaving or accumulated state for a simulator to control: "
NOT_APPLICABLE = {
    "C05": _PURE + "Young's modulus is a function of (area, deformation, LUT, scalings); deciding it needs an independent interpolation oracle over a continuous input space.",
    "C11": _PURE + "type normalisation is a key x representation table evaluated by pure converter functions (metadata storage round trips are exercised inside C01 but C11 as a whole is not claimed).",
    "C12": _PURE + "statistics/KDE equalities are metamorphic and differential statements about numerical routines on a given selection.",
    "C15": _PURE + "point-in-polygon classification is a pure geometric function in compiled code; exhaustive small grids and random floats are input generation, not simulation.",
    "C16": _PURE + "downsampling is a deterministic function of its arrays (the RNG is re-seeded inside).",
    "C18": _PURE + "contour, moment, volume, brightness and crosstalk laws are algebraic identities over functions of masks/images/signals.",
}

# property id -> dict(level, text, note, technique, design_ref, module)
CLAIMED = {
    "C02": dict(
        level="exploration",
        technique="deterministic simulation: seeded single-actor histories (filter edits, applies, hierarchy refreshes, repeated exports under a virtual clock) over in-memory, file, basin-backed, hierarchy-child and tdms sources; generator-array oracle through h5py and dclab; a first export attempt that fails at an injected write error/interrupt, then the repetition",
        design_ref="DESIGN.md section 4 (C02)",
        text=("Seeded histories (<=16 operations) over in-memory, lazily indexed in-memory, hdf5, basin-backed, hierarchy-child (depth <=2), "
              "tdms-fixture and re-opened product datasets: filter edits, applies, refreshes and selection sizes {0, 1, c-1, c, c+1, 2c, "
              "2c+1, all} relative to the export chunk length under chunk-size knobs; after every export.hdf5 the product is read "
              "through raw h5py and through dclab and must hold exactly the requested features, the generator's arrays restricted to "
              "the selected events (all when unfiltered) in order and bit-identical, event count = len = number selected, the source's "
              "measurement and user metadata (documented exceptions only), and the prefixed logs and tables (cells and attributes); "
              "export.tsv: same selection and columns, values within 1e-9 relative, NaN/inf preserved; empty selection: no events."),
        note=("Sampling. Source truth is the generator's arrays (hierarchy: restricted along the ancestors' filters; basins: the origin's "
              "arrays); only tdms fixtures and one ancillary feature are read through dclab before export. basins=True is C07's. Two "
              "known findings (empty-prefix log collision, negative values in unsigned features)."),
    ),
    "C07": dict(
        level="exploration",
        technique="deterministic simulation: seeded histories of origins, chained filtered exports (files and hierarchy children), explicit mapped/unmapped/internal basins, copy tools and a file-system actor (move together, move referrer, delete/rename/replace origin); provider-identifying data; transient read faults (OSError/interrupt at the k-th HDF5 read of an access, placed from the end via a twin object), then the repetition on the same object",
        design_ref="DESIGN.md section 4 (C07)",
        text=("Seeded histories over up to 18 files in three directories: origins whose scalar, image, mask, contour and trace values "
              "encode (measurement, event); exports with basins (filtered or not, with or without stored features, from files and from "
              "hierarchy children of depth 1-2) chained to depth 4; referrers with explicit store_basin calls (unmapped, subset, superset "
              "with repeats, permutation, maps longer than a chunk, feature restrictions, explicit map names, two basins, internal "
              "basins, own features with deliberately different values); compress/repack copies; a file-system actor moves referrer and "
              "origin together, moves the referrer alone, deletes, renames or replaces origins by another measurement. After every step "
              "each affected file is read completely through the dataset and through each basin separately with every access pattern: "
              "values must be the origin's at the root events the model composes from the applied filter arrays, stored features win, "
              "lengths equal the event count, a feature is available while a stored location points to the intended target and absent "
              "(KeyError) rather than foreign data otherwise."),
        note=("Sampling. Where a file reaches a feature through several equally ranked basins with different data every such provider "
              "is accepted. Origins always carry identifiers (a referrer without identifier gives 'no certainty' by dclab's own "
              "documentation). Only file and internal basins (remote ones are C14's); checker threads run unscheduled (they only test "
              "file existence)."),
    ),
    "C14": dict(
        level="exploration",
        technique="deterministic simulation: generated basin graphs over local files and a simulated network (HTTP object hosts, stubbed S3, fake DCOR API), real availability-checker threads under a seeded baton-passing scheduler with network/lock/source-line yield points, weather faults, provider-identifying data, reachability reference model; transient HDF5 read faults inside a read (basin map / feature data), then the repetition",
        design_ref="DESIGN.md section 4 (C14), 3.5, 3.7",
        text=("Directed graphs of basin references over 1..6 datasets (chains, diamonds, self-references, k-cycles; file/http/s3/dcor "
              "edges, unmapped and mapped, feature lists, absolute/relative/dangling locations; run identifiers equal, extended, "
              "unrelated or missing) are written to local files and simulated hosts; the root is opened through RTDC_HDF5, RTDC_HTTP, "
              "RTDC_S3 or RTDC_DCOR and seeded histories of listing, containment, reads, close/reopen run while dclab's availability "
              "checker threads are interleaved by the seeded scheduler and hosts refuse, lose DNS, time out, answer 403/404, heal, and "
              "local origins are deleted. Every returned value identifies its provider: it must belong to a dataset reachable along "
              "permitted, identifier-matching edges at the mapped event; datasets opened through a network format must never open a "
              "local file; listing calls must not raise; reads raise KeyError only; every call returns within a step budget (deadlock, "
              "RecursionError and non-termination are violations); in fault-free acyclic worlds a legitimately reachable feature must be readable."),
        note=("Sampling. The reachability model encodes the statement, not the implementation's key bookkeeping. Remote basins are not "
              "contacted at listing time by design (upstream tests assert it), so listing soundness is judged for file-basin graphs "
              "only; data of a non-matching dataset must never be returned for any type. S3 is stubbed at the boto3 object handle. A "
              "run exceeding its wall limit twice is reported as a termination violation."),
    ),
    "C08": dict(
        level="exploration",
        technique="deterministic simulation: seeded histories of compress/repack/condense/tdms2rtdc over a population of generated files (writer-made and raw-h5py storage layouts), tool chains, structural input/output oracle through h5py and dclab; each tool call in a forked child; planned in-process A-B-A copy histories",
        design_ref="DESIGN.md section 4 (C08)",
        text=("Seeded histories over a small population of files: inputs come from dclab's writer (optionally with basins) and from a "
              "raw-h5py layout generator (contiguous, chunked, gzip, lzf, Zstd<5, Zstd>=5, chunks longer than the data, variable- and "
              "fixed-length logs incl. non-ASCII, empty logs/tables/features, compound tables with attributes, internal/file/mapped "
              "basins with one or several definitions, defect-marking software versions, unknown features); compress, repack (+- strip "
              "logs/basins) and condense (+- ancillary/basin features) are applied to any file so that chains arise, tdms2rtdc runs on a "
              "shipped fixture. After each task input and output are compared through raw h5py and through dclab (all feature kinds, "
              "logs, table cells and attributes, root metadata except version branding, decoded basin definitions, map features, "
              "internal basin data) minus what was stripped and plus the command log; condense: every scalar feature the input offers "
              "under the options equals the stored one; sha-256 of every pre-existing file unchanged; compress/repack re-applied to their "
              "own output change no data."),
        note=("Sampling. Each task runs in a forked grandchild so that a native crash is a violation, not a dead run. Generated inputs "
              "carry self-consistent metadata; zero-length datasets count as no data; tdms coverage: three no-video fixtures."),
    ),
    "C09": dict(
        level="exploration",
        technique="deterministic simulation: seeded histories of split/join/round-trip over generated measurements with differing feature sets and acquisition stamps, time-zone and chunk-size knobs, model of concatenation/offset arithmetic",
        design_ref="DESIGN.md section 4 (C09)",
        text=("Seeded histories over generated measurements (1-40 events; per-file feature sets with single, several or consecutive "
              "missing features and features recomputable for some inputs only; date/time with and without fractional seconds, equal "
              "stamps, stamps inside one second, day/month/year crossings; all-zero boundary images; logs, tables, all feature kinds) "
              "run dclab.cli.split (n in {1, divisor, non-divisor, N, >N}, both skip flags), dclab.cli.join of 2-5 inputs in shuffled "
              "order and split->join round trips under a per-run fixed-offset time zone. Split: the parts concatenate to the original, "
              "no part exceeds n. Join: chronological order with ties in the given order, features = those available in every input, "
              "values equal the concatenation, time/frame continued by the acquisition offsets, index 1..N, index_online increasing, "
              "every source log retained as src-#k_name; round trip reproduces the feature data."),
        note=("Sampling. Time tolerance 1e-6 s (the implementation forms offsets from float64 epoch seconds); everything else exact. "
              "Only fixed-offset time zones. Not judged: index_online beyond monotonicity, trace names not common to all inputs, "
              "joins without any common feature, .tdms inputs."),
    ),
    "C13": dict(
        level="exploration",
        technique="deterministic simulation: closure of the integrity checker over every producing operation of the file world plus seeded single/paired storage corruptions of durable state; multi-session and checkpointed (rectify mid-session) writer products",
        design_ref="DESIGN.md section 4 (C13)",
        text=("Seeded histories produce files through the writer (complete metadata), filtered/unfiltered export, compress, repack, "
              "condense, split and join; every product must pass check_dataset without violations and a file and its compress/repack "
              "copy must give the same violation list. Copies of valid products then receive one or two raw-h5py corruptions (feature "
              "length, contour count, ROI size, unknown feature, deleted mandatory key, non-enumerating index, channel/laser/sample "
              "counts, external link, non-positive set-up value); each must be reported as a violation by a key- or feature-specific "
              "cue, and for metadata-only corruptions the copy must report the same list."),
        note=("Sampling. Mandatory-key lists and cue texts are frozen in the check. Failing producers are counted, not judged. "
              "Two known findings are listed in known_findings.json (compress repairs metadata; trace-only files skip the fl checks)."),
    ),
    "C17": dict(
        level="exploration",
        technique="deterministic simulation: seeded call histories over the memoised functions with a colliding argument pool, cache-capacity knob, mutator and file-modifier environment actors on a virtual clock; fresh-computation oracle",
        design_ref="DESIGN.md section 4 (C17)",
        text=("Seeded call histories (<=120 calls) over kde_histogram/kde_gauss/kde_multivariate, downsample_grid, hashfile, "
              "LazyContourList and the cached scalar arrays of file datasets, hierarchy children and mapped-basin proxies use an "
              "argument pool built to collide (same bytes with other dtype or length, strided vs contiguous, positional vs keyword) "
              "with the cache capacity and the contour list length as per-run knobs so that eviction and recall happen; a mutator "
              "actor writes into returned arrays and a file-modifier actor edits hashed files and stamps their mtimes from the "
              "virtual clock. Every result must equal the same call executed with the process-global cache swapped out; dataset "
              "reads must equal the generator's data; hashfile must equal an independent md5 of the current file content."),
        note=("Sampling. Edits that change neither size nor mtime of a hashed file are outside the environment model (cache keyed on "
              "both by design). Thread safety of the caches is not examined (no property quantifies over caller threads)."),
    ),
    "C06": dict(
        level="exploration",
        technique="deterministic simulation: seeded histories of configuration edits, temporary-feature assignments, reads and availability tests on a long-lived dataset vs. a freshly constructed one; independent emodulus precedence table; repeated reads after refused computations, A-B-A assignments through different handles of a hierarchy",
        design_ref="DESIGN.md section 4 (C06)",
        text=("Seeded histories (<=40 operations) set, change and delete [calculation]/[imaging]/[setup] keys (emodulus scenarios A/B/C, "
              "crosstalk, pixel size, frame rate, flow rate, chip region), set and replace a temporary feature, read on-demand features "
              "(emodulus, area_um, time, deform, area_ratio, volume, contour, brightness, inertia ratio, crosstalk-corrected maxima, "
              "ml_class, a two-output plugin feature) and test availability on dict-backed, file-backed and hierarchy-child datasets, "
              "with read-edit-read patterns favoured; at every read the value must be bit-identical to that of a freshly constructed "
              "dataset with the same data and current configuration, availability must agree with the fresh dataset and with whether "
              "reading succeeds, and emodulus must equal a direct get_emodulus call with inputs chosen by an independent precedence table."),
        note=("Sampling. Same code computes both sides, so the comparison isolates caching/availability logic, not numerics (C05 is not "
              "claimed). Contradictory key sets for which dclab raises deliberate errors are not generated; children are judged after a refresh."),
    ),
    "C03": dict(
        level="exploration",
        technique="deterministic simulation: seeded histories of filter-setting edits and applications against a stateless specification (independent even-odd polygon test), fresh-dataset cross-check; applications that fail (half-entered range, injected read fault of the backing file) followed by another application",
        design_ref="DESIGN.md section 4 (C03)",
        text=("Seeded histories (<=60 operations) of range set/change/remove (reversed, equal, tied with data values), polygon add/"
              "modify-in-place/invert/remove, invalid-removal and enable toggles, event limit set/clear, manual exclusions, reset and "
              "apply (also forced) run on dict- and file-backed datasets with NaN/inf data; after every apply filter.all/box/polygon/"
              "invalid must equal a stateless evaluation of the current settings, the event limit must keep exactly min(L, q) "
              "qualifying events reproducibly, and a freshly built dataset given the same final settings must select the same events."),
        note=("Sampling. Trusted: the stateless specification in checks/c03.py; polygon axes hold finite values and points within "
              "1e-12*scale of an edge are not judged; the invalid-value clause uses the scalar features the dataset lists."),
    ),
    "C04": dict(
        level="exploration",
        technique="deterministic simulation: per-level actors interleaved by a seeded scheduler over a hierarchy of depth 1..4, refresh of the youngest as synchronisation point, model of per-child excluded root events; transient read fault of the backing file inside a read through a child, then retry without refresh",
        design_ref="DESIGN.md section 4 (C04)",
        text=("One owner per hierarchy level edits filters (ranges, polygons), excludes events manually, reads features without "
              "refresh, assigns temporary features, changes root configuration, creates deeper children and applies filters on "
              "intermediate levels, in an order chosen by the seeded scheduler; after every refresh of the youngest member each "
              "level must have as many events as its parent selects, every feature kind must equal the parent's feature restricted "
              "to the selection, and each child's manual flags must be False exactly for the root events its owner excluded "
              "(including events that were hidden by an ancestor and came back)."),
        note=("Sampling. Manual edits are exclusions only; positional operations on a child are issued only when it is synchronised "
              "with its ancestors; reads between refreshes are not judged."),
    ),
    "C19": dict(
        level="exploration",
        technique="deterministic simulation: seek/tell/read histories through HTTPFile/S3File against an in-process RFC 7233 range server behind a fault-injecting requests transport (drops, connect/read timeouts, stalled bodies, one-off 503 error replies on a virtual clock), byte-exact model",
        design_ref="DESIGN.md section 4 (C19), 3.7",
        text=("Seeded histories of seek(SET/CUR/END), tell, read(n) (n biased to chunk boundaries, multi-chunk spans, the end of the "
              "resource, 0 and -1), length and etag run through the real HTTPFile (and S3File over a stubbed object handle) with "
              "per-run chunk size 1..64, cache capacity 1..5 and resource sizes around multiples of the chunk size, served by a "
              "simulated range server in two RFC-conformant personalities while the transport injects connection errors and "
              "timeouts that the client's retry loop must absorb; returned bytes must equal the model's slice, the cache must not "
              "exceed its capacity. Dataset level: generated .rtdc files served the same way and read through RTDC_HTTP must equal "
              "the local RTDC_HDF5 (features, metadata, logs, tables)."),
        note=("Sampling. Trusted: the simulated server's conformance to RFC 7233, the boto3 object-handle stub for S3File; botocore's "
              "HTTP stack is not simulated. Server misbehaviour (5xx, truncated bodies) is outside the statement."),
    ),
    "C01": dict(
        level="exploration",
        technique="deterministic simulation: seeded writer-session histories (close/reopen as restart) against an in-memory reference model, chunk-size knob, refused calls followed by further writes, ddmin-minimised replay",
        design_ref="DESIGN.md section 4 (C01)",
        text=("Seeded histories of RTDCWriter sessions (append/replace/reset, path or open h5py.File target, every feature kind, "
              "every split of the events over calls biased to the chunk length under a per-run CHUNK_SIZE_BYTES knob, logs incl. "
              "multi-byte and over-long lines, tables, metadata in several representations, rejected calls, context-exit and bare "
              "close) are executed against the real writer and a reference model; at every verify point the file is read back "
              "through dclab and through raw h5py and compared exactly (values, dtypes, logs, table cells and attributes, "
              "metadata types, event count, index)."),
        note=("Sampling, not enumeration. Trusted: the reference model's dtype/metadata rules (frozen in spec/meta_types.json and "
              "checks/c01.py), h5py as the independent reading route. Histories keep a feature's dtype constant."),
    ),
    "C20": dict(
        level="exploration",
        technique="deterministic simulation: seeded production histories (writer partitions, NaN placement, replace, legacy files, CLI tools, export, join, hierarchy refresh) with a summary oracle after every producing step; appends repeated after an injected resize failure, two writers taking turns on one file",
        design_ref="DESIGN.md section 4 (C20)",
        text=("Seeded production histories create files through every path the statement names (append calls with any partition "
              "and NaN placement over one or several sessions, replace mode, stripped summaries, compress/repack/condense, "
              "filtered and unfiltered export with and without basins, join of 2-5 files, hierarchy children with filter changes "
              "and refreshes); after each step min/max/mean reported by every scalar feature object are compared with the "
              "NaN-ignoring statistics of the values read from the same object."),
        note=("Sampling. Mean tolerance 1e-9*max|x| (float64) / 2e-6*max|x| (float32). Producer operations that fail are "
              "counted and skipped (they belong to C08/C09). Feature objects without min/max/mean (mapped basin proxies) are skipped."),
    ),
    "C10": dict(
        level="fault_enumeration",
        technique="deterministic simulation: crash-point / I/O-fault enumeration at the h5py+pathlib seam, real process kills in forked children, restart and follow-up tasks after failed runs, reference-output oracle",
        design_ref="DESIGN.md section 4 (C10), 3.6",
        text=("Every CLI task (compress, condense, repack, join, split, tdms2rtdc) is executed on generated inputs and "
              "pre-states; each intercepted mutating HDF5/file-system call of the task is a numbered fault point at which "
              "the process is killed (real os._exit in a forked child) or an I/O error is raised before/after the call; "
              "after each faulted execution every requested output path must be absent or structurally identical to the "
              "fault-free result, nothing but *.rtdc~ may appear, inputs must be byte-identical. quick samples fault points "
              "(all open/close/rename/unlink points, the tail, an even subsample); thorough enumerates all points x 4 kinds "
              "per sampled workload plus crash-restart-crash sequences."),
        note=("Trusted: the h5py/pathlib/os call boundary as the granularity of interruption (power loss is outside the property's "
              "fault model; a torn flush is modelled at the close of temporary files only); the structural HDF5 digest as equality of results; "
              "inputs are sampled (seeded), crash points per sampled workload are enumerated."),
    ),
}

# properties whose checks are still under construction (kept in not_applicable with that
# reason until the check exists, so that MANIFEST.json is valid and honest at every commit)
PENDING = []
for _p in PENDING:
    if _p not in CLAIMED:
        NOT_APPLICABLE[_p] = "not claimed yet: check under construction (designed in DESIGN.md section 4; will be claimed once its machinery is committed)"


# addenda (what the checks gained while the seeded changes of rounds 2-5 were worked through)
_ADDENDA = {'C01': ' Histories also contain: a side file written earlier in the same process (the same user-shaped feature with another event shape, the same metadata dictionary object), and a lossy first access (dtype conversion) of the reopened file before the plain reads.', 'C02': ' Also: exports onto existing paths (override), sources whose image series is shorter than the scalar features, a feature touched with a lossy dtype before it is exported, and the same hierarchy child exported again after its parent selected more events.', 'C03': ' Also: half-entered ranges (apply raises, completed or dropped afterwards), polygons removed by editing the configuration list, a look-alike dataset filtered before, settings transferred to a second dataset that registers polygons of its own.', 'C04': ' Also: index-array access of non-scalar child features (permutations, repeats), reset_filter() on the youngest child followed by the same exclusions, another hierarchy with other traces drawn before, a temporary feature initialised from another dataset that must keep its values.', 'C06': ' Also: grandchild backing, large arrays with tail-only replacements, temporary features set through the child (read without explicit refresh), a recipe that refuses its input (raises) and is repaired afterwards, sibling features read in a row, settings changed back.', 'C07': ' Also: the same child exported again after an equal-count reselection of its parent, children closed while the source stays in use, results written to by the caller (mutate-then-read), a second referrer read at the same time.', 'C08': ' Also: inputs of realistic size (80x250 images at multiples of the default chunk length), output names without/with foreign suffix, tools called in-process as well as isolated, a feature registered and a file repaired in place between two copies of one path, marker logs that are empty.', 'C09': ' Also: an input restamped after an earlier join, a join into a path used before, a split interrupted by an I/O error and run again, inputs whose features differ in length (judged for part size, duplicates and order only).', 'C10': ' Further fault kinds: KeyboardInterrupt at a fault point, persistent errors from a point on (full disk; rename/unlink keep working), bursts of 2..5 consecutive errors, torn close of a temporary file (half flushed, ENOSPC), fault followed by a fault-free restart; further pre-states: unloadable leftover at the output path, output path that is a symbolic link to the input.', 'C13': ' Also: feature-subset exports, exports onto existing files, three writer sessions with an unrectified middle one, switched-off lasers, a temporary feature deregistered between two writers, files checked intact and then corrupted in place.', 'C14': ' Weather also contains hosts that accept/refuse per attempt after a seeded pattern (one host or all, from the first open on), availability verified before the weather changes, objects that vanish (403/404) after verification, over-long path components and remote-typed definitions with local paths.', 'C17': ' Also: tuple arguments whose digits concatenate identically, summary reads (min/max/mean), a grandchild with root re-selections, contours of invalid masks, files replaced keeping their mtime, and look-alike objects (same first mask / same first feature) handled earlier in the process.', 'C19': ' Also: mid-body stalls (header delivered, body cut after k bytes), servers without ETag, a server that honours If-Range, further file objects on the same URL (other chunk grid, replaced resource) and on the same host.', 'C20': ' Also: feature objects held across a refresh (self-consistency), replace in place after the file was read, a look-alike in-memory hierarchy summarised before the judged one.'}
for _k, _v in _ADDENDA.items():
    CLAIMED[_k]["text"] = CLAIMED[_k]["text"] + _v
