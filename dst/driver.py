"""Forked-run driver: one run = one forked child of a warm parent.

Parent -> W workers (forked once) -> one child per run (forked by the worker).
Jobs are handed out through a shared pipe of fixed-size records, results come
back as JSON lines.  Everything a run does is a function of (check, seed, tier)
or of an explicit trace (replay / minimisation)."""
import copy
import errno
import json
import os
import pathlib
import select
import shutil
import signal
import struct
import subprocess
import sys
import time
import traceback

from . import seeds, ctx as ctxmod, seams

VERIF = pathlib.Path(__file__).resolve().parent.parent
JOB = struct.Struct("<qq")  # (index, rep)


def scratch_base():
    for base in ("/dev/shm", os.environ.get("TMPDIR") or "/tmp"):
        try:
            p = pathlib.Path(base) / "verif-dst"
            p.mkdir(parents=True, exist_ok=True)
            test = p / f".w{os.getpid()}"
            test.write_text("x")
            test.unlink()
            return p
        except OSError:
            continue
    raise RuntimeError("no scratch space")


def run_seed(master, check, idx):
    return seeds.H(master, check, idx)


def make_trace(mod, seed, tier, idx):
    import inspect
    if "idx" in inspect.signature(mod.make_trace).parameters:
        t = mod.make_trace(seed, tier, idx=idx)
    else:
        t = mod.make_trace(seed, tier)
    t["seed"] = seed
    t["idx"] = idx
    return t


# --------------------------------------------------------------------------
# child
# --------------------------------------------------------------------------

def _child_main(mod, trace, tier, scratch_root):
    """Executed in the forked child: run one trace, return the result dict."""
    seed = trace["seed"]
    scratch = pathlib.Path(scratch_root) / f"{mod.NAME}-{os.getpid()}-{seed % 10**9}" / "w"
    scratch.mkdir(parents=True, exist_ok=True)
    os.chdir(scratch)
    from . import h5digest
    h5digest.SCRATCH = str(scratch.parent).encode()
    cx = ctxmod.RunContext(mod.NAME, mod.PROPERTY, seed, tier, scratch, trace)
    try:
        cx.clock = seams.install_common(seed)
        try:
            mod.run(trace, cx)
        except ctxmod.StopRun:
            pass
        except Exception as e:
            # the harness tripped over the consequences of something it had already reported (e.g. an input that a
            # tool deleted): keep the violation, note the exception; without a recorded violation it stays a harness error
            if not cx.violations:
                raise
            cx.log("harness", f"stopped after a recorded violation: {type(e).__name__}")
        cx.sim_s = max(cx.sim_s, cx.clock.elapsed)
        res = cx.result()
        if res["violations"] or trace.get("_want_trace"):
            t = {k: v for k, v in trace.items() if not k.startswith("_")}
            res["trace"] = t
        return res
    finally:
        os.chdir("/")
        shutil.rmtree(scratch.parent, ignore_errors=True)


def fork_run(mod, trace, tier, timeout_s, scratch_root=None):
    """Run one trace in a forked child; returns the result dict.  A harness
    problem is reported as {"harness_error": ...}, a timeout as
    {"harness_timeout": True}."""
    if scratch_root is None:
        scratch_root = scratch_base()
    warm(mod)
    r, w = os.pipe()
    sys.stdout.flush()
    sys.stderr.flush()
    pid = os.fork()
    if pid == 0:
        code = 0
        try:
            os.close(r)
            signal.signal(signal.SIGINT, signal.SIG_DFL)
            signal.signal(signal.SIGTERM, signal.SIG_DFL)
            try:
                import faulthandler
                faulthandler.dump_traceback_later(max(5.0, timeout_s * 0.9), exit=False)
            except Exception:
                pass
            try:
                res = _child_main(mod, trace, tier, scratch_root)
            except BaseException:
                res = {"seed": trace.get("seed"), "harness_error": traceback.format_exc()[-4000:]}
            data = json.dumps(res, default=_json_default).encode()
            with os.fdopen(w, "wb") as f:
                f.write(data)
        except BaseException:
            code = 3
        finally:
            os._exit(code)
    os.close(w)
    chunks = []
    deadline = time.monotonic() + timeout_s
    timed_out = False
    while True:
        left = deadline - time.monotonic()
        if left <= 0:
            timed_out = True
            break
        rl, _, _ = select.select([r], [], [], min(left, 5.0))
        if rl:
            b = os.read(r, 1 << 20)
            if not b:
                break
            chunks.append(b)
    os.close(r)
    if timed_out:
        _kill_tree(pid)
    try:
        _, status = os.waitpid(pid, 0)
    except ChildProcessError:
        status = 0
    _cleanup_scratch(scratch_root, mod.NAME, pid)
    if timed_out:
        return {"seed": trace.get("seed"), "harness_timeout": True}
    try:
        return json.loads(b"".join(chunks).decode())
    except Exception:
        return {"seed": trace.get("seed"),
                "harness_error": f"child died without result (wait status {status})"}


def _kill_tree(pid):
    # kill children of pid first (grandchildren of C10 runs), then pid
    try:
        out = subprocess.run(["pgrep", "-P", str(pid)], capture_output=True, text=True).stdout.split()
        for c in out:
            try:
                os.kill(int(c), signal.SIGKILL)
            except OSError:
                pass
    except Exception:
        pass
    try:
        os.kill(pid, signal.SIGKILL)
    except OSError:
        pass


def _cleanup_scratch(root, name, pid):
    root = pathlib.Path(root)
    for p in root.glob(f"{name}-{pid}-*"):
        shutil.rmtree(p, ignore_errors=True)


def _json_default(o):
    import numpy as np
    if isinstance(o, np.generic):
        return o.item()
    if isinstance(o, np.ndarray):
        return o.tolist()
    if isinstance(o, (set, frozenset)):
        return sorted(o)
    if isinstance(o, pathlib.Path):
        return str(o)
    return repr(o)


# --------------------------------------------------------------------------
# workers
# --------------------------------------------------------------------------

def _worker_loop(mod, tier, master, job_r, res_w, timeout_s, scratch_root):
    out = os.fdopen(res_w, "wb", buffering=0)
    while True:
        try:
            rec = os.read(job_r, JOB.size)
        except InterruptedError:
            continue
        if len(rec) < JOB.size:
            break
        idx, rep = JOB.unpack(rec)
        seed = run_seed(master, mod.NAME, idx)
        trace = make_trace(mod, seed, tier, idx)
        if idx < 3 and rep == 0:
            trace["_want_trace"] = True
        t0 = time.monotonic()
        res = fork_run(mod, trace, tier, timeout_s, scratch_root)
        if res.get("harness_timeout"):
            # one retry with a longer limit before it is believed
            trace2 = make_trace(mod, seed, tier, idx)
            res = fork_run(mod, trace2, tier, timeout_s * 2, scratch_root)
            res["retried_after_timeout"] = True
        res["idx"] = idx
        res["rep"] = rep
        res["wall"] = time.monotonic() - t0
        line = json.dumps(res, default=_json_default).encode() + b"\n"
        out.write(line)
    out.close()


def warm(mod):
    w = getattr(mod, "warm", None)
    if w is not None and not getattr(mod, "_warmed", False):
        w()
        mod._warmed = True


class Pool:
    def __init__(self, mod, tier, master, workers, timeout_s):
        warm(mod)
        self.mod, self.tier, self.master = mod, tier, master
        self.scratch_root = scratch_base()
        self.job_r, self.job_w = os.pipe()
        self.readers = {}
        self.pids = []
        sys.stdout.flush()
        sys.stderr.flush()
        for _ in range(workers):
            r, w = os.pipe()
            pid = os.fork()
            if pid == 0:
                try:
                    os.close(r)
                    os.close(self.job_w)
                    for fd in list(self.readers):
                        os.close(fd)
                    _worker_loop(mod, tier, master, self.job_r, w, timeout_s, self.scratch_root)
                except BaseException:
                    traceback.print_exc()
                finally:
                    os._exit(0)
            os.close(w)
            self.readers[r] = b""
            self.pids.append(pid)
        os.close(self.job_r)
        self.closed = False

    def feed(self, idx, rep):
        os.write(self.job_w, JOB.pack(idx, rep))

    def close_jobs(self):
        if not self.closed:
            os.close(self.job_w)
            self.closed = True

    def results(self, timeout=1.0):
        """Yield result dicts that are available within `timeout`."""
        if not self.readers:
            return
        rl, _, _ = select.select(list(self.readers), [], [], timeout)
        for fd in rl:
            b = os.read(fd, 1 << 20)
            if not b:
                os.close(fd)
                del self.readers[fd]
                continue
            buf = self.readers[fd] + b
            *lines, rest = buf.split(b"\n")
            self.readers[fd] = rest
            for ln in lines:
                if ln.strip():
                    yield json.loads(ln.decode())

    def alive(self):
        return bool(self.readers)

    def shutdown(self, kill=False):
        self.close_jobs()
        if kill:
            for pid in self.pids:
                _kill_tree(pid)
        for pid in self.pids:
            try:
                os.waitpid(pid, 0)
            except ChildProcessError:
                pass
        for fd in list(self.readers):
            os.close(fd)
        self.readers = {}


# --------------------------------------------------------------------------
# minimisation
# --------------------------------------------------------------------------

def _same_failure(res, oracle):
    for v in res.get("violations") or []:
        if v["oracle"] == oracle and not v.get("known"):
            return v
    return None


def _ddmin(items, test, allow_empty=False):
    """Delta debugging: test(list) -> True (still fails) / False / None (budget exhausted)."""
    n = 2
    while len(items) >= 1:
        chunk = max(1, -(-len(items) // n))
        reduced = False
        for i in range(0, len(items), chunk):
            cand = items[:i] + items[i + chunk:]
            if not cand and not allow_empty:
                continue
            r = test(cand)
            if r is None:
                return items
            if r:
                items = cand
                n = max(n - 1, 2)
                reduced = True
                break
        if not reduced:
            if chunk == 1:
                break
            n = min(len(items), n * 2)
    return items


def minimise(mod, tier, trace, oracle, timeout_s, max_tests=300, max_wall=120.0):
    t0 = time.monotonic()
    tests = [0]

    def test(cand):
        if tests[0] >= max_tests or time.monotonic() - t0 > max_wall:
            return None
        tests[0] += 1
        c = copy.deepcopy(cand)
        res = fork_run(mod, c, tier, timeout_s)
        return _same_failure(res, oracle) is not None

    best = copy.deepcopy(trace)
    # 1. ddmin over ops, then faults
    for key in ("ops", "faults"):
        items = best.get(key)
        if not isinstance(items, list) or len(items) < 2:
            continue

        def test_items(cand_items, key=key):
            cand = dict(best)
            cand[key] = cand_items
            return test(cand)

        items = _ddmin(list(items), test_items, allow_empty=(key == "faults"))
        best = dict(best)
        best[key] = items
    # 2. check-specific simplifications (greedy)
    simp = getattr(mod, "simplify", None)
    if simp is not None:
        progress = True
        while progress and tests[0] < max_tests and time.monotonic() - t0 <= max_wall:
            progress = False
            for cand in simp(copy.deepcopy(best)):
                r = test(cand)
                if r:
                    best = cand
                    progress = True
                    break
    return best, tests[0]


# --------------------------------------------------------------------------
# replay files
# --------------------------------------------------------------------------

def write_replay(mod, trace, res, violation):
    d = VERIF / "replays"
    d.mkdir(exist_ok=True)
    doc = {k: v for k, v in trace.items() if not k.startswith("_")}
    doc["check"] = mod.NAME
    doc["property"] = mod.PROPERTY
    doc["pythonhashseed"] = os.environ.get("PYTHONHASHSEED")
    doc["violation"] = {k: violation[k] for k in ("oracle", "detail", "sig") if k in violation}
    doc["digest"] = res.get("digest")
    doc["log_tail"] = res.get("log_tail")
    name = f"{mod.NAME}-{seeds.short_hash([doc.get('ops'), doc.get('faults'), doc['violation']['oracle'], doc.get('seed')])}.json"
    p = d / name
    p.write_text(json.dumps(doc, indent=1, default=_json_default))
    return p


def replay(mod, path, tier, timeout_s=600):
    """Execute a replay file; returns (reproduced?, result)."""
    doc = json.loads(pathlib.Path(path).read_text())
    trace = {k: v for k, v in doc.items()
             if k not in ("violation", "digest", "log_tail", "check", "property", "pythonhashseed")}
    res = fork_run(mod, trace, tier, timeout_s)
    want = doc["violation"]["oracle"]
    got = [v for v in res.get("violations") or [] if v["oracle"] == want]
    same_digest = res.get("digest") == doc.get("digest")
    return bool(got), same_digest, res
