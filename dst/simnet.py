"""Simulated network: hosts, a range-capable object server, a DCOR dcserv API,
fault injection at the `requests` transport adapter and at the `socket` probe.

Installed per run (forked child): wraps http_utils.session_cache.get_session so
that every session gets the SimAdapter mounted, replaces the `socket` module
attribute of http_utils and fmt_s3 with a fake, and (optionally) fmt_s3.S3File
with a subclass whose boto3 object handle is a stub."""
import hashlib
import io
import json
import re
import socket as _real_socket
import types
from urllib.parse import urlparse, parse_qs

import requests
from requests.adapters import BaseAdapter
from requests.structures import CaseInsensitiveDict

from . import seeds


class Host:
    def __init__(self, name, personality="strict"):
        self.name = name
        self.personality = personality   # "strict" | "s3like"
        self.state = "up"                # up | refuse | dnsfail | down (timeouts)
        self.objects = {}                # path -> bytes
        self.etags = {}
        self.status = {}                 # path -> 403 | 404
        self.dcor = {}                   # resource id -> dict (fake dcserv data)
        self.requests = 0
        self.outages = []                # [(t0, t1, kind)] on the virtual clock


class SimNet:
    def __init__(self, ctx, clock=None):
        self.ctx = ctx
        self.clock = clock or ctx.clock
        self.hosts = {}
        self.fault_rng = None            # set per operation by the check
        self.fault_rate = 0.0
        self.fault_burst = 0             # remaining forced faults
        self.outage = None               # ("forever"|n requests) forced failure mode for all requests
        self.latency = (0.001, 0.05)
        self.slow_rate = 0.0             # probability that latency exceeds the timeout
        self.on_yield = None             # scheduler hook: called at every network event
        self.n_requests = 0
        self.n_faults = 0
        self.local_touch = []            # recorded local file-system accesses (C14 isolation oracle)
        self.request_log = []

    # ---- topology ----
    def host(self, name, personality="strict"):
        if name not in self.hosts:
            self.hosts[name] = Host(name, personality)
        return self.hosts[name]

    def put(self, url, data):
        u = urlparse(url)
        self.host(u.hostname).objects[u.path] = bytes(data)

    def host_state(self, hostname, peek=False):
        """state of a host as seen by the next connection attempt (peek=True: without consuming a flaky attempt)"""
        h = self.hosts.get(hostname)
        if h is None:
            return "dnsfail"
        now = self.clock.now if self.clock else 0
        for (t0, t1, kind) in h.outages:
            if t0 <= now < t1:
                return kind
        if h.state == "flaky" and peek:
            return "flaky"
        if h.state == "flaky":
            # a connection that comes and goes: each connection attempt is refused or accepted following a
            # pseudo-random pattern that is a pure function of (flaky_seed, attempt number); seed 0 = strict alternation
            h.flaky_count = getattr(h, "flaky_count", 0) + 1
            fs = getattr(h, "flaky_seed", 0)
            if not fs:
                return "refuse" if h.flaky_count % 2 == 1 else "up"
            return "refuse" if seeds.H("flaky", fs, h.flaky_count) % 2 else "up"
        return h.state

    # ---- installation ----
    def install(self, s3=True):
        import dclab.http_utils as hu
        import dclab.rtdc_dataset.fmt_s3 as fs3
        net = self
        cache = hu.session_cache
        orig_get = cache.get_session.__func__ if hasattr(cache.get_session, "__func__") else None

        def get_session(url, _cache=cache):
            key = urlparse(url).netloc
            new = key not in _cache.sessions
            ses = type(_cache).get_session(_cache, url)
            if new:
                ad = SimAdapter(net)
                ses.mount("http://", ad)
                ses.mount("https://", ad)
            return ses
        cache.get_session = get_session
        fake = FakeSocketModule(net)
        hu.socket = fake
        fs3.socket = fake
        if s3:
            install_s3_stub(net)
        return self

    # ---- events ----
    def _yield(self, what):
        if self.on_yield is not None:
            self.on_yield(what)

    def draw_fault(self, hostname, timeout):
        """Decide the fate of one request: None (deliver) or an exception instance."""
        st = self.host_state(hostname)
        if st == "dnsfail":
            self.n_faults += 1
            self.ctx.fault("dns_failure")
            return requests.exceptions.ConnectionError(f"sim: name resolution failed for {hostname}")
        if st == "refuse":
            self.n_faults += 1
            self.ctx.fault("connection_refused")
            return requests.exceptions.ConnectionError(f"sim: connection refused by {hostname}")
        if st == "down":
            self.n_faults += 1
            self.ctx.fault("connect_timeout")
            if self.clock:
                self.clock.advance(_tmo(timeout))
            return requests.exceptions.ConnectTimeout(f"sim: connect timeout {hostname}")
        r = self.fault_rng
        if self.outage is not None:
            kind, left = self.outage
            if left is not None:
                left -= 1
                self.outage = (kind, left) if left > 0 else None
            self.n_faults += 1
            return self._mk_fault(kind, timeout, hostname)
        if self.fault_burst > 0:
            self.fault_burst -= 1
            self.n_faults += 1
            return self._mk_fault(r.choice(["conn", "connect_timeout", "read_timeout"]) if r else "conn", timeout, hostname)
        if r is not None and self.fault_rate > 0 and r.random() < self.fault_rate:
            self.n_faults += 1
            self.fault_burst = r.choice([0, 0, 1, 2, 5])
            return self._mk_fault(r.choice(["conn", "connect_timeout", "read_timeout"]), timeout, hostname)
        # latency vs. timeout on the virtual clock
        if r is not None and self.slow_rate > 0 and r.random() < self.slow_rate:
            self.n_faults += 1
            return self._mk_fault("read_timeout", timeout, hostname)
        if self.clock and r is not None:
            self.clock.advance(r.uniform(*self.latency))
        return None

    def _mk_fault(self, kind, timeout, hostname):
        if kind == "conn":
            self.ctx.fault("connection_error")
            return requests.exceptions.ConnectionError(f"sim: connection dropped ({hostname})")
        if self.clock:
            self.clock.advance(_tmo(timeout))
        if kind == "connect_timeout":
            self.ctx.fault("connect_timeout")
            return requests.exceptions.ConnectTimeout(f"sim: connect timeout ({hostname})")
        self.ctx.fault("read_timeout")
        return requests.exceptions.ReadTimeout(f"sim: read timeout ({hostname})")

    # ---- servers ----
    def serve(self, method, url, headers):
        """Return (status, reason, headers, body)."""
        u = urlparse(url)
        h = self.hosts[u.hostname]
        h.requests += 1
        if u.path.startswith("/api/3/action/dcserv"):
            return self.serve_dcor(h, u, headers)
        path = u.path
        if path in h.status:
            code = h.status[path]
            return code, {403: "Forbidden", 404: "Not Found"}[code], {"content-length": "9"}, b"<error/>\n"
        if path not in h.objects:
            return 404, "Not Found", {"content-length": "9"}, b"<error/>\n"
        if getattr(self, "error_reply_at", None) is not None:
            # a one-off error reply of an overloaded server / gateway: the n-th request from now on is answered with 503 and a
            # small error page; the next request is served normally again
            if self.error_reply_at <= 0:
                self.error_reply_at = None
                self.n_error_replies = getattr(self, "n_error_replies", 0) + 1
                self.ctx.fault("http_503_once")
                page = b"<html><body><h1>503 Service Unavailable</h1></body></html>\n"
                return 503, "Service Unavailable", {"content-length": str(len(page)), "content-type": "text/html"}, page
            self.error_reply_at -= 1
        blob = h.objects[path]
        ek = (path, len(blob))
        if ek not in h.etags:
            h.etags[ek] = '"' + hashlib.md5(blob).hexdigest() + '"'
        etag = h.etags[ek]
        base = {"etag": etag, "accept-ranges": "bytes"}
        if getattr(h, "no_etag", False):
            base.pop("etag")
        rng = headers.get("Range") or headers.get("range")
        ifr = headers.get("If-Range") or headers.get("if-range")
        if rng is not None and ifr is not None and ifr.strip() != etag and "etag" in base:
            # RFC 7233 section 3.2: the validator does not match the current representation -> the Range header is ignored
            rng = None
        if rng is None:
            return 200, "OK", dict(base, **{"content-length": str(len(blob))}), blob
        m = re.match(r"^bytes=(\d+)-(\d*)$", rng.strip())
        invalid = m is None
        if m:
            first = int(m.group(1))
            last = int(m.group(2)) if m.group(2) != "" else len(blob) - 1
            if m.group(2) != "" and last < first:
                invalid = True   # RFC 7233 2.1: invalid byte-range-spec
        if invalid:
            if h.personality == "strict":
                # a syntactically invalid Range header is ignored
                return 200, "OK", dict(base, **{"content-length": str(len(blob))}), blob
            body = b"<Error><Code>InvalidRange</Code></Error>"
            return 416, "Requested Range Not Satisfiable", {"content-length": str(len(body)), "content-range": f"bytes */{len(blob)}"}, body
        if first >= len(blob):
            body = b"<Error><Code>InvalidRange</Code></Error>"
            return 416, "Requested Range Not Satisfiable", {"content-length": str(len(body)), "content-range": f"bytes */{len(blob)}"}, body
        last = min(last, len(blob) - 1)
        part = blob[first:last + 1]
        hd = dict(base)
        hd["content-length"] = str(len(part))
        hd["content-range"] = f"bytes {first}-{last}/{len(blob)}"
        return 206, "Partial Content", hd, part

    def serve_dcor(self, h, u, headers):
        q = parse_qs(u.query)
        rid = (q.get("id") or [""])[0]
        query = (q.get("query") or [""])[0]
        res = h.dcor.get(rid)

        def reply(obj, code=200):
            body = json.dumps(obj).encode()
            return code, "OK" if code == 200 else "Error", {"content-length": str(len(body)), "content-type": "application/json"}, body
        if res is None:
            return reply({"success": False, "error": {"message": "Not found"}}, 404)
        if res.get("private") and headers.get("Authorization") != res.get("token"):
            return reply({"success": False, "error": {"message": "Access denied"}}, 403)
        if query == "valid":
            return reply({"success": True, "result": True})
        if query == "version":
            return reply({"success": True, "result": 2})
        if query in res:
            return reply({"success": True, "result": res[query]})
        return reply({"success": False, "error": {"message": f"unknown query {query}"}}, 400)


def _tmo(timeout):
    if timeout is None:
        return 30.0
    if isinstance(timeout, (tuple, list)):
        return float(timeout[0] or timeout[1] or 30.0)
    return float(timeout)


class SimAdapter(BaseAdapter):
    def __init__(self, net):
        super().__init__()
        self.net = net

    def send(self, request, stream=False, timeout=None, verify=True, cert=None, proxies=None):
        net = self.net
        net.n_requests += 1
        u = urlparse(request.url)
        net._yield(f"send {u.hostname}{u.path}")
        exc = net.draw_fault(u.hostname, timeout)
        rng_h = request.headers.get("Range")
        net.request_log.append((u.hostname, u.path, rng_h, None if exc is None else type(exc).__name__))
        if len(net.request_log) > 400:
            del net.request_log[0]
        if exc is not None:
            raise exc
        status, reason, headers, body = net.serve(request.method, request.url, request.headers)
        resp = requests.Response()
        resp.status_code = status
        resp.reason = reason
        resp.headers = CaseInsensitiveDict(headers)
        resp.url = request.url
        resp.request = request
        resp.encoding = "utf-8"
        if request.method == "HEAD":
            body = b""
        r = net.fault_rng
        if (r is not None and getattr(net, "stall_rate", 0.0) > 0 and len(body) > 1 and status in (200, 206)
                and r.random() < net.stall_rate):
            # the header arrives, the body stalls after k bytes for longer than the read timeout: whoever reads the body
            # (requests itself for stream=False, the caller for stream=True) gets the first k bytes and then the error
            k = r.randrange(1, len(body))
            net.n_faults += 1
            net.ctx.fault("stalled_mid_body")
            if net.clock:
                net.clock.advance(_tmo(timeout))
            resp._content = False
            resp._content_consumed = False
            resp.raw = _StallingRaw(body[:k])
            net._yield(f"recv-partial {u.hostname}{u.path}")
            return resp
        resp._content = body
        resp._content_consumed = True
        resp.raw = io.BytesIO(body)
        net._yield(f"recv {u.hostname}{u.path}")
        return resp

    def close(self):
        pass


class _StallingRaw:
    """Body stream that delivers its bytes and then fails like a connection whose peer stopped sending
    (requests turns urllib3's ReadTimeoutError while reading a body into requests.exceptions.ConnectionError)."""
    def __init__(self, data):
        self._b = io.BytesIO(data)

    def read(self, n=-1, **kw):
        chunk = self._b.read(n)
        if chunk:
            return chunk
        raise requests.exceptions.ConnectionError("sim: read timed out while reading the body")

    def release_conn(self):
        pass

    def close(self):
        pass


class FakeSocket:
    def __init__(self, net):
        self.net = net
        self.timeout = None

    def __enter__(self):
        return self

    def __exit__(self, *a):
        return False

    def settimeout(self, t):
        self.timeout = t

    def connect(self, addr):
        host, port = addr
        net = self.net
        net._yield(f"connect {host}")
        st = net.host_state(host)
        if st == "dnsfail":
            net.ctx.fault("dns_failure")
            raise _real_socket.gaierror(-2, "sim: Name or service not known")
        if st == "refuse":
            net.ctx.fault("connection_refused")
            raise ConnectionRefusedError(111, "sim: Connection refused")
        if st == "down":
            net.ctx.fault("connect_timeout")
            if net.clock:
                net.clock.advance(self.timeout or 1.0)
            raise _real_socket.timeout("sim: timed out")
        if net.clock:
            net.clock.advance(0.001)

    def close(self):
        pass


class FakeSocketModule(types.ModuleType):
    def __init__(self, net):
        super().__init__("socket")
        self._net = net
        self.AF_INET = _real_socket.AF_INET
        self.SOCK_STREAM = _real_socket.SOCK_STREAM
        self.gaierror = _real_socket.gaierror
        self.timeout = _real_socket.timeout
        self.error = _real_socket.error

    def socket(self, *a, **k):
        return FakeSocket(self._net)


# ----------------------------------------------------------------------------
# S3 stub at the boto3 object-handle level
# ----------------------------------------------------------------------------

class _Body:
    def __init__(self, b):
        self._b = b

    def read(self):
        return self._b


class StubS3Object:
    def __init__(self, net, endpoint_url, object_path):
        self.net = net
        u = urlparse(endpoint_url)
        self.hostname = u.hostname
        self.path = "/" + object_path.strip("/")

    def _blob(self):
        import botocore.exceptions
        net = self.net
        net._yield(f"s3 {self.hostname}{self.path}")
        st = net.host_state(self.hostname)
        if st != "up":
            net.ctx.fault("s3_endpoint_" + st)
            raise botocore.exceptions.EndpointConnectionError(endpoint_url=f"http://{self.hostname}")
        h = net.hosts[self.hostname]
        h.requests += 1
        code = h.status.get(self.path) or (None if self.path in h.objects else 404)
        if code:
            raise botocore.exceptions.ClientError({"Error": {"Code": str(code), "Message": "sim"}}, "HeadObject")
        return h.objects[self.path]

    def load(self):
        self._blob()

    @property
    def content_length(self):
        return len(self._blob())

    @property
    def e_tag(self):
        return '"' + hashlib.md5(self._blob()).hexdigest() + '"'

    def get(self, Range=None):
        blob = self._blob()
        self.net.n_requests += 1
        m = re.match(r"^bytes=(\d+)-(\d*)$", Range or "")
        if not m or (m.group(2) != "" and int(m.group(2)) < int(m.group(1))) or int(m.group(1)) >= len(blob):
            import botocore.exceptions
            raise botocore.exceptions.ClientError({"Error": {"Code": "InvalidRange", "Message": "sim"}}, "GetObject")
        first = int(m.group(1))
        last = int(m.group(2)) if m.group(2) != "" else len(blob) - 1
        return {"Body": _Body(blob[first:last + 1])}


class _StubClient:
    def close(self):
        pass


def install_s3_stub(net):
    """Replace S3File.__init__ (the only place that talks to boto3) by one that installs a stub object handle;
    _parse_header, download_range and close of the real class stay in use."""
    import dclab.rtdc_dataset.fmt_s3 as fs3
    from dclab.http_utils import HTTPFile
    cls = fs3.S3File
    if getattr(cls, "_sim", False):
        return

    def sim_init(self, object_path, endpoint_url, access_key_id="", secret_access_key="",
                 use_ssl=True, verify_ssl=True):
        if endpoint_url is None:
            raise ValueError("The S3 endpoint URL is empty.")
        endpoint_url = endpoint_url.strip().rstrip("/")
        self.s3_client = _StubClient()
        self.s3_object = StubS3Object(net, endpoint_url, object_path)
        HTTPFile.__init__(self, f"{endpoint_url}/{object_path}")
    cls.__init__ = sim_init
    cls._sim = True
