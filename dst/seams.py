"""Seams owned by the simulator: virtual clock, identity sources, version brand,
tuning knobs.  Nothing in /repo is edited: dclab looks these names up in module
globals at call time, so replacing the module attribute is enough."""
import importlib
import time as _real_time
import types

from . import seeds

EPOCH0 = 1_577_880_000.0  # 2020-01-01 12:00:00 UTC


class SimClock:
    def __init__(self, start=EPOCH0):
        self.now = float(start)
        self.start = float(start)
        self.reads = 0

    def advance(self, dt):
        assert dt >= 0
        self.now += dt

    @property
    def elapsed(self):
        return self.now - self.start


class SimTime(types.ModuleType):
    """Stand-in for the `time` module as seen by selected dclab modules."""

    def __init__(self, clock, on_sleep=None):
        super().__init__("time")
        self._clock = clock
        self._on_sleep = on_sleep
        self.struct_time = _real_time.struct_time
        self.strptime = _real_time.strptime
        self.mktime = _real_time.mktime
        self.timezone = _real_time.timezone
        self.tzname = _real_time.tzname

    def time(self):
        self._clock.reads += 1
        return self._clock.now

    def monotonic(self):
        self._clock.reads += 1
        return self._clock.now - self._clock.start

    perf_counter = monotonic

    def time_ns(self):
        return int(self.time() * 1e9)

    def gmtime(self, secs=None):
        return _real_time.gmtime(self.time() if secs is None else secs)

    def localtime(self, secs=None):
        return _real_time.localtime(self.time() if secs is None else secs)

    def strftime(self, fmt, t=None):
        if t is None:
            t = self.localtime()
        return _real_time.strftime(fmt, t)

    def sleep(self, secs):
        if self._on_sleep is not None:
            self._on_sleep(secs)
        else:
            self._clock.advance(secs)


class _FakeUUID:
    def __init__(self, hexs):
        self.hex = hexs

    def __str__(self):
        h = self.hex
        return f"{h[:8]}-{h[8:12]}-{h[12:16]}-{h[16:20]}-{h[20:]}"


class SimUUID(types.ModuleType):
    def __init__(self, rng):
        import uuid as _uuid
        super().__init__("uuid")
        self._rng = rng
        self.UUID = _uuid.UUID

    def uuid4(self):
        return _FakeUUID("%032x" % self._rng.getrandbits(128))


class SimRandom(types.ModuleType):
    def __init__(self, rng):
        super().__init__("random")
        self._rng = rng

    def choice(self, seq):
        return self._rng.choice(seq)

    def random(self):
        return self._rng.random()

    def randint(self, a, b):
        return self._rng.randint(a, b)


TIME_MODULES = [
    "dclab.rtdc_dataset.export",
    "dclab.cli.common",
    "dclab.rtdc_dataset.fmt_dict",
    "dclab.rtdc_dataset.fmt_dcor.api",
]
VERSION_MODULES = [
    "dclab.rtdc_dataset.writer",
    "dclab.rtdc_dataset.export",
    "dclab.cli.common",
    "dclab.cli.task_compress",
    "dclab.cli.task_condense",
    "dclab.cli.task_join",
    "dclab.cli.task_repack",
    "dclab.cli.task_split",
    "dclab.cli.task_tdms2rtdc",
]
SIM_VERSION = "0.99.0"


def install_common(seed, clock=None, on_sleep=None):
    """Install clock, identity and version seams for one run. Returns the clock."""
    if clock is None:
        clock = SimClock()
    st = SimTime(clock, on_sleep=on_sleep)
    for name in TIME_MODULES:
        mod = importlib.import_module(name)
        mod.time = st
    exp = importlib.import_module("dclab.rtdc_dataset.export")
    exp.uuid = SimUUID(seeds.rng(seed, "ident-uuid"))
    core = importlib.import_module("dclab.rtdc_dataset.core")
    core.random = SimRandom(seeds.rng(seed, "ident-random"))
    for name in VERSION_MODULES:
        mod = importlib.import_module(name)
        if hasattr(mod, "version"):
            mod.version = SIM_VERSION
    return clock


def set_knob_chunk_bytes(nbytes):
    w = importlib.import_module("dclab.rtdc_dataset.writer")
    w.CHUNK_SIZE_BYTES = int(nbytes)


def set_tz(tz):
    import os
    os.environ["TZ"] = tz
    _real_time.tzset()
