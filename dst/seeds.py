"""One integer decides a run: seed derivation and labelled PRNG substreams."""
import hashlib
import random


def H(*parts) -> int:
    """Stable 63-bit hash of the parts (independent of PYTHONHASHSEED)."""
    h = hashlib.sha256()
    for p in parts:
        h.update(repr(p).encode("utf-8"))
        h.update(b"\x00")
    return int.from_bytes(h.digest()[:8], "big") >> 1


def rng(seed: int, label: str) -> random.Random:
    """Substream `label` of run seed `seed`; adding draws to one substream
    does not shift any other."""
    return random.Random(H(seed, label))


def np_rng(seed: int, label: str):
    import numpy as np
    return np.random.Generator(np.random.PCG64(H(seed, label)))


def short_hash(obj) -> str:
    """Short, stable digest of a python/numpy object for event logs."""
    import numpy as np
    h = hashlib.sha256()

    def upd(o):
        if isinstance(o, np.ndarray):
            h.update(str(o.dtype).encode())
            h.update(str(o.shape).encode())
            h.update(np.ascontiguousarray(o).tobytes())
        elif isinstance(o, (list, tuple)):
            h.update(b"[")
            for x in o:
                upd(x)
            h.update(b"]")
        elif isinstance(o, dict):
            h.update(b"{")
            for k in sorted(o, key=repr):
                upd(k)
                upd(o[k])
            h.update(b"}")
        elif isinstance(o, (bytes, bytearray)):
            h.update(bytes(o))
        elif isinstance(o, (np.generic,)):
            upd(np.asarray(o))
        else:
            h.update(repr(o).encode("utf-8", "replace"))
    upd(obj)
    return h.hexdigest()[:12]
