"""C02 — HDF5/TSV export contains exactly the selected events and features.

Worlds A+B, single actor.  A seeded actor builds a small population of source
datasets (in-memory, file, hierarchy children, basin-backed file, rarely a .tdms
fixture, products of earlier exports), edits and applies filters on them,
refreshes hierarchy children and exports; after every export the product is
read back through dclab and through raw h5py (or parsed, for .tsv) and compared
with the generator's own arrays restricted to the events the source's filter
selects at export time."""
import copy
import warnings

import numpy as np

from dst import gen, seeds, seams

NAME = "C02"
PROPERTY = "C02"
LEVEL = "exploration"
RULE = ("one evaluation = one seeded history (<= 16 operations over <= 6 source datasets of <= 80 events, 8x12 images; tdms "
        "fixtures 137/547 events) of {create source (dict, dict with a lazily indexed image stack, hdf5 file with logs/tables/"
        "user metadata, basin-backed referrer file, tdms fixture), create hierarchy child (depth <= 2), box range, polygon "
        "filter, manual exclusion, selection of a target size k in {0,1,c-1,c,c+1,2c,2c+1,all} (c = export chunk length under "
        "the run's chunk-size knob), apply/refresh, remove ranges, export to .rtdc (feature subsets incl. duplicates/None, "
        "filtered or not, logs, tables, prefix, override, re-export of a product) and to .tsv}; after every export the product "
        "is compared with the generator's arrays restricted to the selected events (features, order, values, event count, "
        "metadata, logs, tables). non-trivial = >=1 export with >=1 comparison; distinct = distinct event-log digests")
STATE_MEASURE = ("distinct (source kind, output format, filtered, selection-size class relative to the chunk length, "
                 "set of non-scalar feature kinds exported) tuples")
PROBES = ["export_repeated_after_failed_attempt", "sel_empty", "sel_single", "sel_full_filtered", "sel_c-1", "sel_c", "sel_c+1", "sel_2c", "sel_2c+1",
          "duplicates_in_list", "features_none", "nonscalar_temp_exported", "scalar_temp_exported", "ancillary_exported",
          "contour_exported", "trace_exported", "mask_exported", "image_bg_exported",
          "hier_child_export", "hier_depth2_export", "child_refreshed_before_export", "basin_backed_export",
          "basin_feature_exported", "tdms_export", "lazy_stack_export", "reexport_of_product", "same_second_export",
          "tables_with_attrs", "user_section", "tsv_export", "tsv_nan_or_inf", "override_existing", "suffix_added",
          "unapplied_filter_edit", "unfiltered_with_active_filter", "polygon_filter", "logs_carried", "tables_carried",
          "repeated_export_same_object", "feature_touched_with_lossy_dtype", "ragged_source", "ragged_nothing_filtered_out"]
COMPONENTS = {
    "real": ["dclab export.hdf5 / export.tsv / store_filtered_feature / yield_filtered_array_stacks", "dclab RTDCWriter",
             "RTDC_Dict, RTDC_HDF5 (+ file basins), RTDC_Hierarchy, RTDC_TDMS readers", "dclab Filter / PolygonFilter",
             "temporary features, ancillary feature area_ratio", "h5py/HDF5 + hdf5plugin on tmpfs"],
    "stub": ["wall clock (virtual; same-second exports forced)", "uuid/random identity sources", "dclab version string (0.99.0)"],
}
ASSUMPTIONS = [
    "the 'active filter' is ds.filter.all at the time of the export call (edits that were not applied do not count)",
    "hierarchy children are exported in a synchronised state: if an ancestor applied its filter after the child's last refresh, "
    "the child is refreshed before the export (documented contract of rejuvenate())",
    "the feature 'index' is not requested (the writer documents that it always stores an enumeration)",
    "the format-specific section [fmt_tdms] is not measurement metadata (the writer documents that it drops it)",
    "an unfiltered export of a dataset that has no events at all (empty hierarchy child) may be refused with an exception (counted, not judged)",
    "source values of the ancillary feature area_ratio and of tdms fixtures are read through dclab before the export; all other "
    "source values are the generator's arrays",
    ".tsv values are compared with relative tolerance 1e-9 (format %.10e), NaN/inf by identity",
]

SCALAR_POOL = ["area_um", "deform", "bright_avg", "pos_x", "area_cvx", "area_msd", "temp", "fl1_max", "fl2_max",
               "frame", "userdef1", "index_online", "nevents", "time"]
TMP_NS = "tmp_c02_ns"
TMP_SC = "tmp_c02_sc"
SHAPE = (8, 12)
NS_SHAPE = (3, 4)
TRACE_LEN = 20
N_CHOICES = [1, 2, 9, 10, 11, 21, 25, 31, 41, 61, 80]
CHUNK_KNOBS = [640, 640, 960, 960, 2960, 1024 ** 2]
SIZES = ["0", "1", "all", "c-1", "c", "c+1", "2c", "2c+1", "rand", "rand"]
PREFIXES = ["src_", "src_", "source_", "x-", ""]
TDMS = ["fmt-tdms_2fl-no-image_2017", "fmt-tdms_shapein-2.0.1-no-image_2017"]


def plan(tier):
    if tier == "quick":
        return {"runs": 600, "budget_s": 32, "run_timeout_s": 180, "det_pairs": 3, "min_tests": 60, "min_wall": 6.0}
    return {"runs": 60000, "budget_s": 780, "run_timeout_s": 240, "det_pairs": 3}


def make_trace(seed, tier):
    r = seeds.rng(seed, "plan")
    return {"knobs": {"chunk_bytes": r.choice(CHUNK_KNOBS), "tdms": r.random() < 0.05, "ragged": r.random() < 0.05},
            "max_ops": r.choice([6, 10, 16]), "ops": None}


class ProducerFailed(Exception):
    """a preparing operation borrowed from another property failed: the op is abandoned (counted, not judged)"""


class Producer:
    """Context manager around preparing operations (dataset construction, filter application,
    hierarchy refresh, temporary features): they belong to other properties and are executed but
    not judged here."""

    def __init__(self, world, what, entry=None):
        self.w, self.what, self.entry = world, what, entry

    def __enter__(self):
        return self

    def __exit__(self, et, ev, tb):
        from dst.ctx import StopRun
        if et is None:
            return False
        if issubclass(et, (StopRun, KeyboardInterrupt, SystemExit, GeneratorExit, MemoryError)):
            return False
        self.w.ctx.count("skipped_producer_" + self.what)
        self.w.ctx.log("a", f"producer {self.what} failed: {et.__name__}")
        if self.entry is not None:
            self.w.mark_broken(self.entry)
        raise ProducerFailed(self.what) from None


class LazyStack:
    """An image stack that can be indexed (integers, slices, index arrays) but offers no
    ``__array__`` — like the image column of the tdms format; the exporter documents that it
    assembles chunks event by event for such objects."""

    def __init__(self, arr):
        self._a = arr
        self.shape = arr.shape
        self.dtype = arr.dtype
        # (dclab hashes array-likes without __array__ through their `identifier`, as for the tdms columns)
        self.identifier = "lazy-" + seeds.short_hash(arr)

    def __len__(self):
        return len(self._a)

    def __getitem__(self, idx):
        return np.array(self._a[idx])


def restrict(feat, v, index):
    if feat == "contour":
        return [v[int(i)] for i in index]
    if feat == "trace":
        return {k: a[index] for k, a in v.items()}
    return v[index]


def flen(feat, v):
    if feat == "trace":
        return len(v[sorted(v)[0]])
    return len(v)


def eq_nan(a, b):
    a = np.asarray(a)
    b = np.asarray(b)
    if a.shape != b.shape:
        return False
    if a.dtype.kind == "f" or b.dtype.kind == "f":
        return bool(np.array_equal(a.astype(np.float64), b.astype(np.float64), equal_nan=True))
    if a.dtype.kind == "b" or b.dtype.kind == "b":
        return bool(np.array_equal(a.astype(bool), b.astype(bool)))
    return bool(np.array_equal(a, b))


def first_bad(a, b):
    a = np.asarray(a)
    b = np.asarray(b)
    if a.shape != b.shape:
        return f"shapes {a.shape} vs {b.shape}"
    with np.errstate(invalid="ignore"):
        same = (a == b)
        if a.dtype.kind == "f" and b.dtype.kind == "f":
            same = same | (np.isnan(a) & np.isnan(b))
    bad = np.flatnonzero(~same.reshape(len(a), -1).all(axis=1)) if len(a) else np.array([], dtype=int)
    return f"events {bad[:8].tolist()} of {len(a)}"


def kind_of(feat):
    if feat in ("image", "image_bg", "mask", "contour", "trace", TMP_NS, TMP_SC, "area_ratio"):
        return feat
    return "scalar"


class World:
    def __init__(self, trace, ctx):
        self.t, self.ctx = trace, ctx
        self.dir = ctx.scratch
        self.pop = []            # source entries
        self.outputs = []        # {"path", "adopted"}
        self.counter = 0
        self.last_export_second = None
        self.tainted = False
        self.tdms_used = False

    # ------------------------------------------------------------------
    # helpers
    # ------------------------------------------------------------------
    def chunk_len(self, which):
        from dclab.rtdc_dataset.writer import RTDCWriter
        if which == "trace":
            return int(RTDCWriter.get_best_nd_chunks((TRACE_LEN,), np.int16)[0])
        return int(RTDCWriter.get_best_nd_chunks(SHAPE, np.uint8)[0])

    def chain(self, e):
        ch = [e]
        while ch[0]["parent"] is not None:
            ch.insert(0, ch[0]["parent"])
        return ch

    def root(self, e):
        return self.chain(e)[0]

    def depth(self, e):
        return len(self.chain(e)) - 1

    def avail(self, e):
        return list(self.root(e)["model"].feats)

    def scalars_of(self, e):
        m = self.root(e)["model"]
        return [f for f, v in m.feats.items() if isinstance(v, np.ndarray) and v.ndim == 1]

    def root_ids(self, e):
        """indices (in the root's events) of the events of entry e, from the ancestors' filter arrays"""
        ch = self.chain(e)
        ids = np.arange(ch[0]["n"])
        for a in ch[:-1]:
            fa = np.array(a["ds"].filter.all, dtype=bool)
            if len(fa) != len(ids):
                return None
            ids = ids[fa]
        return ids

    def mark_applied(self, e):
        """entry e (and all its ancestors) just applied their filters: every other descendant of
        any of them must be refreshed before it is used"""
        ch = self.chain(e)
        for a in ch:
            a["stale"] = False
            a["dirty"] = False
        chs = {id(a) for a in ch}
        for d in self.pop:
            if id(d) in chs or d["parent"] is None:
                continue
            if any(id(a) in chs for a in self.chain(d)[:-1]):
                d["stale"] = True

    def apply(self, e, why="apply"):
        ds = e["ds"]
        with warnings.catch_warnings():
            warnings.simplefilter("ignore")
            with Producer(self, why, e):
                if e["kind"] == "hier":
                    ds.rejuvenate()
                else:
                    ds.apply_filter()
        self.mark_applied(e)
        e["dirty"] = False

    def mark_broken(self, e):
        """a preparing operation on e failed half-way: e and its descendants are not used any more"""
        for d in self.pop:
            if any(a is e for a in self.chain(d)):
                d["broken"] = True
        e["broken"] = True

    def sync(self, e):
        if e["kind"] == "hier" and e["stale"]:
            self.apply(e, "refresh")
            return True
        return False

    def newpath(self, tag, ext):
        self.counter += 1
        return self.dir / f"o{self.counter:02d}_{tag}{ext}"

    # ------------------------------------------------------------------
    # generation
    # ------------------------------------------------------------------
    def gen_new(self, r):
        kinds = ["dict", "dict", "lazy", "hdf5", "hdf5", "basin"]
        kind = r.choice(kinds)
        if self.t["knobs"].get("tdms") and not self.tdms_used and (r.random() < 0.6 or not self.pop):
            self.tdms_used = True
            return {"k": "new", "kind": "tdms", "fixture": r.choice(TDMS), "dseed": r.randrange(1 << 30), "tmp_ns": r.random() < 0.5,
                    "dt": r.choice([0, 0, 1])}
        nsc = r.choice([1, 2, 3, 5])
        scal = r.sample(SCALAR_POOL, nsc)
        if r.random() < 0.5:
            for f in ("area_um", "deform"):
                if f not in scal:
                    scal.append(f)
        if r.random() < 0.3:
            for f in ("area_cvx", "area_msd"):
                if f not in scal:
                    scal.append(f)
        op = {"k": "new", "kind": kind, "n": r.choice(N_CHOICES), "dseed": r.randrange(1 << 30), "scalars": scal,
              "image": r.random() < 0.7 or kind == "lazy", "image_bg": r.random() < 0.3, "mask": r.random() < 0.5,
              "contour": r.random() < 0.35, "trace": r.random() < 0.4, "tmp_ns": r.random() < 0.45, "tmp_sc": r.random() < 0.3,
              "nan": r.choice(["none", "none", "some", "first", "all", "one"]), "special": r.random() < 0.3,
              "n_logs": r.choice([0, 1, 1, 2]), "n_tables": r.choice([0, 0, 1, 2]), "long_logs": r.random() < 0.3,
              "user": r.random() < 0.5, "idmode": r.choice(["full", "full", "full", "rid", "dts", "dts", "none"]) if kind in ("dict", "lazy") else "full",
              "relbasin": r.random() < 0.5, "basin_feats": r.random() < 0.4, "dt": r.choice([0, 0, 1])}
        return op

    def gen_feats(self, r, e):
        av = self.avail(e)
        if r.random() < 0.12:
            return None
        k = r.randint(1, min(6, len(av)))
        feats = r.sample(av, k)
        ns = [f for f in av if kind_of(f) != "scalar"]
        if ns and r.random() < 0.6:
            f = r.choice(ns)
            if f not in feats:
                feats.append(f)
        if r.random() < 0.25:
            feats.append(r.choice(feats))
            if r.random() < 0.3:
                feats.insert(0, r.choice(feats))
        return feats

    def gen_sel(self, r):
        return {"size": r.choice(SIZES), "cref": r.choice(["img", "img", "trace"]), "mseed": r.randrange(1 << 30), "frac": r.random()}

    def gen_op(self, r):
        P = self.pop
        if not P:
            return self.gen_new(r)
        x = r.random()
        if len(P) < 6 and ((len(P) < 2 and x < 0.18) or x < 0.05):
            return self.gen_new(r)
        dt = r.choice([0, 0, 0, 0, 0.4, 1, 61, 3600])
        follow = getattr(self, "follow_up", None)
        self.follow_up = None
        if follow and follow[1] < len(P) and not P[follow[1]].get("broken") and r.random() < 0.7:
            kind, j, arg = follow
            ej = P[j]
            if kind == "export_touched":
                # the feature that other code touched first is exported next, without a refresh in between
                av = self.avail(ej)
                feats = [arg] + [f for f in av if f != arg and r.random() < 0.3]
                return {"k": "export", "src": j, "feats": feats, "filtered": r.random() < 0.72, "logs": False, "tables": False,
                        "prefix": r.choice(PREFIXES), "override": False, "reuse": False, "suffix": True, "adopt": False, "sel": None, "dt": dt}
            if kind == "widen_parent" and ej["parent"] is not None:
                # a child was exported; now its parent selects more events and the same child object is exported again
                pj = [k for k, d in enumerate(P) if d is ej["parent"]]
                if pj:
                    self.follow_up = ("export_again", j, None)
                    return {"k": "clear", "src": pj[0], "apply": True, "dt": dt}
            if kind == "export_again":
                return {"k": "export", "src": j, "feats": self.gen_feats(r, ej), "filtered": r.random() < 0.72, "logs": False,
                        "tables": False, "prefix": r.choice(PREFIXES), "override": False, "reuse": False, "suffix": True,
                        "adopt": False, "sel": None, "dt": dt}
        i = r.randrange(len(P))
        e = P[i]
        x = r.random()
        nh = sum(1 for d in P if d["kind"] == "hier")
        if x < 0.10 and len(P) < 6 and nh < 3 and self.depth(e) < 2:
            return {"k": "child", "src": i, "dt": dt}
        if x < 0.18:
            op = {"k": "select", "src": i, "dt": dt}
            op.update(self.gen_sel(r))
            return op
        sc = self.scalars_of(e)
        if x < 0.28 and sc:
            return {"k": "range", "src": i, "feat": r.choice(sc), "qlo": r.uniform(-0.1, 0.7), "qw": r.uniform(0.0, 0.9),
                    "apply": r.random() < 0.6, "dt": dt}
        if x < 0.32:
            return {"k": "poly", "src": i, "dseed": r.randrange(1 << 30), "inverted": r.random() < 0.3, "apply": r.random() < 0.7, "dt": dt}
        if x < 0.40:
            return {"k": "manual", "src": i, "idx": [r.randrange(1 << 20) for _ in range(r.choice([1, 1, 2, 5]))],
                    "apply": r.random() < 0.6, "dt": dt}
        if x < 0.46:
            return {"k": "apply", "src": i, "dt": dt}
        if x < 0.49 and sc:
            # other code of the user (a plot, a statistic) touches a scalar feature first, with a dtype of its own
            ft = r.choice(sc)
            self.follow_up = ("export_touched", i, ft)
            return {"k": "touch", "src": i, "feat": ft, "dtype": r.choice(["float32", "float32", "int64"]), "dt": dt}
        if x < 0.50:
            return {"k": "clear", "src": i, "apply": r.random() < 0.6, "dt": dt}
        # export
        sel = self.gen_sel(r) if r.random() < 0.6 else None
        if r.random() < 0.22 and sc:
            feats = r.sample(sc, r.randint(1, min(5, len(sc))))
            if r.random() < 0.25:
                feats.append(r.choice(feats))
            return {"k": "tsv", "src": i, "feats": feats, "filtered": r.random() < 0.7, "override": r.random() < 0.5,
                    "suffix": r.random() < 0.8, "sel": sel, "dt": dt}
        if e["kind"] == "hier":
            self.follow_up = ("widen_parent", i, None)
        op = {"k": "export", "src": i, "feats": self.gen_feats(r, e), "filtered": r.random() < 0.72,
              "logs": r.random() < 0.6, "tables": r.random() < 0.6, "prefix": r.choice(PREFIXES),
              "override": r.random() < 0.5, "reuse": r.random() < 0.15, "suffix": r.random() < 0.85,
              "adopt": r.random() < 0.3, "sel": sel, "dt": dt}
        if r.random() < 0.15:
            # a first attempt of this export fails with an I/O error or an interrupt at the at-th write call; the caller repeats it
            op["fail_first"] = {"at": r.choice([1, 3, 6, 10, 15, 22, 30, 45, 70]) + r.randrange(3), "kind": r.choice(["err_before", "err_before", "err_after", "intr_before"])}
        return op

    # ------------------------------------------------------------------
    # execution
    # ------------------------------------------------------------------
    def execute(self, op):
        k = op["k"]
        if k != "new" and not self.pop:
            return
        try:
            getattr(self, "do_" + k)(op)
        except ProducerFailed:
            pass
        self.ctx.clock.advance(float(op.get("dt", 0)))

    def entry(self, op):
        e = self.pop[op["src"] % len(self.pop)]
        if e.get("broken"):
            raise ProducerFailed("broken")
        return e

    # ---- sources ----
    def build_model(self, op):
        n = int(op["n"])
        dseed = op["dseed"]
        ident = {"experiment": {"run identifier": "rid-%08x" % dseed, "date": "2021-0%d-1%d" % (1 + dseed % 9, dseed % 10),
                                "time": "1%d:2%d:3%d" % (dseed % 7, dseed % 5, dseed % 3), "run index": 1 + dseed % 17},
                 "setup": {"identifier": "ZMDD-AcC-%06d-%06d" % (dseed % 999983, dseed % 7919)}}
        idmode = op.get("idmode", "full")
        m = gen.gen_model(dseed, n, uid=dseed % 7, shape=SHAPE, scalars=[f for f in op["scalars"] if f in SCALAR_POOL],
                          image=bool(op["image"]), mask=bool(op["mask"]), contour=bool(op["contour"]), trace=bool(op["trace"]),
                          n_logs=int(op["n_logs"]), n_tables=int(op["n_tables"]), nan_mode=op["nan"], special=bool(op["special"]),
                          meta_extra=ident, long_logs=bool(op["long_logs"]))
        if not m.scalar_names:
            m.feats["deform"] = gen.scalar_values(seeds.np_rng(dseed, "deform"), "deform", n)
        if idmode in ("dts", "none"):
            m.meta["experiment"].pop("run identifier")
        if idmode in ("rid", "none"):
            m.meta["experiment"].pop("date")
            m.meta["experiment"].pop("time")
            m.meta["setup"].pop("identifier")
        rs = seeds.np_rng(dseed, "extra")
        if op.get("image_bg"):
            m.feats["image_bg"] = rs.integers(0, 255, size=(n,) + SHAPE).astype(np.uint8)
        if op.get("user"):
            m.meta["user"] = {"operator": "Ünit tester", "passage": int(dseed % 40), "dilution": 0.125 * (1 + dseed % 5), "checked": bool(dseed % 2)}
        return m

    def temp_data(self, op, n):
        out = {}
        rs = seeds.np_rng(op["dseed"], "temp")
        if op.get("tmp_ns"):
            out[TMP_NS] = rs.normal(size=(n,) + NS_SHAPE)
        if op.get("tmp_sc"):
            v = rs.uniform(-3, 3, size=n)
            if n > 2 and op["dseed"] % 3 == 0:
                v[int(rs.integers(0, n))] = np.nan
            out[TMP_SC] = v
        return out

    def set_temps(self, ds, m, op, n):
        import dclab
        for f, v in self.temp_data(op, n).items():
            with Producer(self, "set_temporary_feature"):
                dclab.set_temporary_feature(ds, f, v.copy())
            m.feats[f] = v

    def add_ancillary(self, ds, m):
        if "area_cvx" in m.feats and "area_msd" in m.feats and "area_ratio" not in m.feats:
            with warnings.catch_warnings():
                warnings.simplefilter("ignore")
                try:
                    m.feats["area_ratio"] = np.array(ds["area_ratio"][:], dtype=np.float64)
                except Exception:
                    self.ctx.count("ancillary_unavailable")

    def do_new(self, op):
        import dclab
        ctx = self.ctx
        if len(self.pop) >= 6:
            return
        kind = op["kind"]
        if kind == "tdms":
            return self.new_tdms(op)
        m = self.build_model(op)
        n = m.n
        innate = list(m.feats)
        self.counter += 1
        tag = f"s{self.counter:02d}"
        with warnings.catch_warnings():
            warnings.simplefilter("ignore")
            if kind in ("dict", "lazy"):
                d = {}
                for f, v in m.feats.items():
                    if f == "trace":
                        d[f] = {kk: a.copy() for kk, a in v.items()}
                    elif f == "contour":
                        d[f] = [c.copy() for c in v]
                    else:
                        d[f] = v.copy()
                if kind == "lazy" and "image" in d:
                    d["image"] = LazyStack(d["image"])
                with Producer(self, "new_dict"):
                    ds = dclab.new_dataset(d)
                    for sec, kv in m.meta.items():
                        for key, val in kv.items():
                            ds.config[sec][key] = val
                    for name, lines in m.logs.items():
                        ds.logs[name] = list(lines)
                    for name, t in m.tables.items():
                        ds.tables[name] = np.rec.array(t["data"].copy())
                        t["attrs"] = {}
            elif kind == "hdf5":
                p = self.dir / f"{tag}.rtdc"
                with Producer(self, "write_model"):
                    gen.write_model(m, p, compression=["zstd", "none", "gzip"][op["dseed"] % 3])
                    ds = dclab.new_dataset(p)
            else:  # basin-backed
                from dclab.rtdc_dataset.writer import RTDCWriter
                po = self.dir / f"{tag}_origin.rtdc"
                pr = self.dir / f"{tag}_ref.rtdc"
                own = [f for f in m.scalar_names][:max(1, len(m.scalar_names) // 2)]
                with Producer(self, "write_basin"):
                    mo = m.copy()
                    mo.logs, mo.tables = {"origin-log": ["only in the origin"]}, {}
                    gen.write_model(mo, po)
                    others = [f for f in m.feats if f not in own]
                    with RTDCWriter(pr, mode="reset") as hw:
                        hw.store_metadata(m.meta)
                        for f in own:
                            hw.store_feature(f, m.feats[f])
                        for name, lines in m.logs.items():
                            hw.store_log(name, lines)
                        for name, t in m.tables.items():
                            hw.store_table(name, np.rec.array(t["data"]))
                            for kk, val in t["attrs"].items():
                                hw.h5file["tables"][name].attrs[kk] = val
                        hw.store_basin(basin_name="origin", basin_type="file", basin_format="hdf5",
                                       basin_locs=[po.name if op.get("relbasin") else po],
                                       basin_feats=(others if op.get("basin_feats") and others else None), verify=False)
                    ds = dclab.new_dataset(pr)
                    missing = [f for f in m.feats if f not in ds]
                if missing:
                    # the basin machinery is another property's business: not judged here
                    ctx.count("skipped_producer_basin")
                    ctx.log("a", f"new basin {tag}: basin features not offered, skipped")
                    return
                innate = own
            self.set_temps(ds, m, op, n)
            self.add_ancillary(ds, m)
        e = {"ds": ds, "kind": kind, "model": m, "n": n, "parent": None, "stale": False, "tag": tag, "innate": innate, "dirty": False}
        self.pop.append(e)
        ctx.state_ops += 1
        ctx.log("a", f"new {kind} {tag} n={n} feats={sorted(m.feats)} logs={len(m.logs)} tables={len(m.tables)}",
                seeds.short_hash([m.feats[f] for f in sorted(m.feats) if f not in ("contour", "trace")]))

    def new_tdms(self, op):
        import dclab
        ctx = self.ctx
        self.counter += 1
        tag = f"s{self.counter:02d}"
        dest = self.dir / f"{tag}_tdms"
        try:
            gen.unzip_fixture(op["fixture"], dest)
        except Exception:
            ctx.count("fixture_unavailable")
            return
        paths = sorted(p for p in dest.rglob("*.tdms") if not p.name.endswith("_traces.tdms"))
        if not paths:
            ctx.count("fixture_unavailable")
            return
        with warnings.catch_warnings():
            warnings.simplefilter("ignore")
            with Producer(self, "open_tdms"):
                ds = dclab.new_dataset(paths[0])
                n = len(ds)
                m = gen.ModelDataset()
                m.n = n
                # fixtures: the source is what dclab reads before the export
                for f in ds.features_innate:
                    if f == "trace":
                        m.feats[f] = {kk: np.array(ds["trace"][kk]) for kk in sorted(ds["trace"].keys())}
                    elif f in ("contour", "image", "mask", "image_bg"):
                        continue
                    else:
                        m.feats[f] = np.array(ds[f])
                for name in ds.logs:
                    lines = list(ds.logs[name])
                    if lines:
                        m.logs[name] = lines
            innate = [f for f in ds.features_innate if f in m.feats]
            sub = dict(op)
            sub["tmp_sc"] = False
            self.set_temps(ds, m, sub, n)
            self.add_ancillary(ds, m)
        e = {"ds": ds, "kind": "tdms", "model": m, "n": n, "parent": None, "stale": False, "tag": tag, "innate": innate, "dirty": False}
        self.pop.append(e)
        ctx.state_ops += 1
        ctx.log("a", f"new tdms {tag} {op['fixture']} n={n} feats={sorted(m.feats)}")

    def do_child(self, op):
        import dclab
        ctx = self.ctx
        if len(self.pop) >= 6:
            return
        par = self.entry(op)
        if self.depth(par) >= 2:
            return
        self.sync(par)
        with warnings.catch_warnings():
            warnings.simplefilter("ignore")
            with Producer(self, "new_child"):
                ch = dclab.new_dataset(par["ds"])
        self.counter += 1
        e = {"ds": ch, "kind": "hier", "model": None, "n": None, "parent": par, "stale": False, "tag": f"s{self.counter:02d}",
             "innate": None, "dirty": False}
        self.pop.append(e)
        # creating the child applied the filters of all ancestors
        self.mark_applied(e)
        ctx.state_ops += 1
        ctx.log("a", f"child {e['tag']} of {par['tag']} len={len(ch)}")

    # ---- filter history ----
    def do_range(self, op):
        e = self.entry(op)
        f = op["feat"]
        m = self.root(e)["model"]
        if f not in m.feats or not isinstance(m.feats[f], np.ndarray) or m.feats[f].ndim != 1:
            return
        v = m.feats[f].astype(np.float64)
        fin = v[np.isfinite(v)]
        lo0, hi0 = (float(fin.min()), float(fin.max())) if fin.size else (0.0, 1.0)
        span = (hi0 - lo0) or 1.0
        lo = lo0 + op["qlo"] * span
        hi = lo + op["qw"] * span
        ds = e["ds"]
        ds.config["filtering"][f + " min"] = lo
        ds.config["filtering"][f + " max"] = hi
        e["dirty"] = True
        self.ctx.state_ops += 1
        self.ctx.log("a", f"range {e['tag']} {f}", seeds.short_hash([lo, hi]))
        if op.get("apply"):
            self.apply(e)

    def do_clear(self, op):
        e = self.entry(op)
        cfg = e["ds"].config["filtering"]
        keys = [k for k in list(cfg.keys()) if k.endswith(" min") or k.endswith(" max")]
        for k in keys:
            cfg.pop(k)
        if keys:
            e["dirty"] = True
        self.ctx.state_ops += 1
        self.ctx.log("a", f"clear {e['tag']} {len(keys)}")
        if op.get("apply"):
            self.apply(e)

    def do_poly(self, op):
        import dclab
        e = self.entry(op)
        sc = [f for f in self.scalars_of(e) if f not in (TMP_SC,)]
        if len(sc) < 2:
            return
        m = self.root(e)["model"]
        fx, fy = sc[op["dseed"] % len(sc)], sc[(op["dseed"] // 7 + 1) % len(sc)]
        if fx == fy:
            fy = sc[(sc.index(fx) + 1) % len(sc)]
        rs = seeds.np_rng(op["dseed"], "poly")
        pts = []
        for f in (fx, fy):
            v = m.feats[f].astype(np.float64)
            fin = v[np.isfinite(v)]
            lo0, hi0 = (float(fin.min()), float(fin.max())) if fin.size else (0.0, 1.0)
            span = (hi0 - lo0) or 1.0
            pts.append(rs.uniform(lo0 - 0.2 * span, hi0 + 0.2 * span, size=5))
        pts = np.column_stack(pts)
        with warnings.catch_warnings():
            warnings.simplefilter("ignore")
            with Producer(self, "polygon", e):
                if e.get("poly") is not None:
                    e["ds"].polygon_filter_rm(e["poly"])
                pf = dclab.PolygonFilter(axes=(fx, fy), points=pts, inverted=bool(op["inverted"]))
                e["ds"].polygon_filter_add(pf)
                e["poly"] = pf
        e["dirty"] = True
        self.ctx.probe("polygon_filter")
        self.ctx.state_ops += 1
        self.ctx.log("a", f"poly {e['tag']} {fx}/{fy}", seeds.short_hash(pts))
        if op.get("apply"):
            self.apply(e)

    def do_manual(self, op):
        e = self.entry(op)
        self.sync(e)
        ds = e["ds"]
        n = len(ds.filter.manual)
        if n == 0:
            return
        idx = sorted({i % n for i in op["idx"]})
        ds.filter.manual[idx] = False
        e["dirty"] = True
        self.ctx.state_ops += 1
        self.ctx.log("a", f"manual {e['tag']}", seeds.short_hash(idx))
        if op.get("apply"):
            self.apply(e)

    def do_touch(self, op):
        e = self.entry(op)
        with Producer(self, "touch", e), warnings.catch_warnings():
            warnings.simplefilter("ignore")
            np.asarray(e["ds"][op["feat"]], dtype=getattr(np, op["dtype"]))
        self.ctx.probe("feature_touched_with_lossy_dtype")
        self.ctx.state_ops += 1
        self.ctx.log("a", f"touch {e['tag']} {op['feat']} {op['dtype']}")

    def do_apply(self, op):
        e = self.entry(op)
        self.apply(e, "refresh" if e["kind"] == "hier" else "apply")
        self.ctx.state_ops += 1
        self.ctx.log("a", f"apply {e['tag']}", seeds.short_hash(np.array(e["ds"].filter.all)))

    def do_select(self, op):
        e = self.entry(op)
        self.select(e, op)
        self.ctx.state_ops += 1

    def select(self, e, sel):
        """make the source's filter select a target number of events (as far as the other filters allow)"""
        ds = e["ds"]
        c = self.chunk_len("trace" if sel.get("cref") == "trace" else "img")
        self.apply(e, "refresh" if e["kind"] == "hier" else "apply")
        rs = seeds.np_rng(sel["mseed"], "sel")
        if e["kind"] == "hier":
            cand = np.flatnonzero(np.array(ds.filter.all))
        else:
            ds.filter.manual[:] = True
            self.apply(e)
            cand = np.flatnonzero(np.array(ds.filter.all))
        n = len(cand)
        size = sel["size"]
        if size == "all":
            k = n
        elif size == "rand":
            k = int(round(sel.get("frac", 0.5) * n))
        else:
            k = {"0": 0, "1": 1, "c-1": c - 1, "c": c, "c+1": c + 1, "2c": 2 * c, "2c+1": 2 * c + 1}[size]
        k = max(0, min(n, k))
        keep = np.sort(rs.permutation(cand)[:k]) if n else cand
        if e["kind"] == "hier":
            drop = np.setdiff1d(cand, keep)
            if len(drop):
                ds.filter.manual[drop] = False
        else:
            ds.filter.manual[:] = False
            if len(keep):
                ds.filter.manual[keep] = True
        self.apply(e)
        self.ctx.log("a", f"select {e['tag']} {size} -> {int(np.sum(ds.filter.all))}/{len(ds.filter.all)}", seeds.short_hash(np.array(ds.filter.all)))

    # ------------------------------------------------------------------
    # exports
    # ------------------------------------------------------------------
    def prepare_export(self, e, op):
        """returns (src arrays accessor ids, sel mask) or None if the source cannot be modelled"""
        ctx = self.ctx
        if self.sync(e):
            ctx.probe("child_refreshed_before_export")
        if op.get("sel"):
            self.select(e, op["sel"])
        ids = self.root_ids(e)
        ds = e["ds"]
        sel = np.array(ds.filter.all, dtype=bool).copy()
        if ids is None or len(ids) != len(sel):
            # an inconsistent hierarchy is the hierarchy property's business
            ctx.count("skipped_inconsistent_hierarchy")
            ctx.log("a", f"export {e['tag']} skipped: inconsistent hierarchy")
            return None
        if e["dirty"]:
            ctx.probe("unapplied_filter_edit")
        return ids, sel

    def sel_class(self, k, n, c):
        if k == 0:
            return "0"
        if k == 1:
            return "1"
        for name, val in (("c-1", c - 1), ("c", c), ("c+1", c + 1), ("2c", 2 * c), ("2c+1", 2 * c + 1)):
            if k == val:
                return name
        if k == n:
            return "all"
        return "<c" if k < c else ("mid" if k < 2 * c else ">2c")

    def snapshot_meta(self, ds):
        import dclab.definitions as dfn
        snap = {}
        for sec in list(dfn.CFG_METADATA) + ["user"]:
            if sec == "fmt_tdms":
                continue
            if sec in ds.config:
                d = dict(ds.config[sec])
                if d:
                    snap[sec] = copy.deepcopy(d)
        return snap

    def do_export(self, op):
        import dclab
        import h5py
        ctx = self.ctx
        e = self.entry(op)
        ds = e["ds"]
        root = self.root(e)
        m = root["model"]
        prep = self.prepare_export(e, op)
        if prep is None:
            return
        ids, sel = prep
        n_src = len(sel)
        filtered = bool(op["filtered"])
        if op["feats"] is None:
            arg_feats = None
            req = list(root["innate"])
            ctx.probe("features_none")
        else:
            arg_feats = [f for f in op["feats"] if f in m.feats]
            if not arg_feats:
                return
            req = sorted(set(arg_feats))
            if len(arg_feats) != len(req):
                ctx.probe("duplicates_in_list")
        req = sorted(set(req))
        idx = np.flatnonzero(sel) if filtered else np.arange(n_src)
        k = len(idx)
        src_idx = ids[idx]
        expected = {f: restrict(f, m.feats[f], src_idx) for f in req}
        # output path
        reuse = None
        if op.get("reuse"):
            cands = [o for o in self.outputs if not o["adopted"] and o["path"].suffix == ".rtdc" and o["path"].exists()]
            if cands:
                reuse = cands[-1]
        if reuse is not None:
            path_arg = path_out = reuse["path"]
            override = True
            ctx.probe("override_existing")
        else:
            path_out = self.newpath("e", ".rtdc")
            path_arg = path_out if op.get("suffix", True) else path_out.with_suffix("")
            if path_arg != path_out:
                ctx.probe("suffix_added")
            override = bool(op["override"])
        prefix = op["prefix"]
        # The source's metadata are what the dataset object held BEFORE its first export (exporting must not
        # change the source): the snapshot is taken once per dataset object, not from the live configuration.
        if "meta_snap" not in e:
            e["meta_snap"] = self.snapshot_meta(ds)
            with warnings.catch_warnings():
                warnings.simplefilter("ignore")
                e["src_id"] = ds.get_measurement_identifier()
        else:
            ctx.probe("repeated_export_same_object")
        snap = e["meta_snap"]
        src_id = e["src_id"]
        import dclab.rtdc_dataset.export as exmod
        export_log = exmod.time.strftime("dclab-export_%Y-%m-%d_%H.%M.%S")
        second = int(ctx.clock.now)
        if self.last_export_second == second:
            ctx.probe("same_second_export")
        self.last_export_second = second
        src_logs = self.source_logs(e)
        src_tables = self.source_tables(e)
        c_img = self.chunk_len("img")
        c_tr = self.chunk_len("trace")
        cls = self.sel_class(k, n_src, c_img)
        kinds = sorted({kind_of(f) for f in req} - {"scalar", TMP_SC, "area_ratio"})
        base_sig = {"src": e["kind"], "root": root["kind"], "filtered": filtered}
        ctx.state(e["kind"] if e["kind"] != "hier" else "hier/" + root["kind"], "rtdc", filtered, cls, "+".join(kinds))
        empty_source = n_src == 0
        if op.get("fail_first"):
            from dst import faultfs
            seam = faultfs.FaultSeam(plan={int(op["fail_first"]["at"]): op["fail_first"]["kind"]}).install()
            attempt_exc = None
            try:
                with warnings.catch_warnings():
                    warnings.simplefilter("ignore")
                    ds.export.hdf5(path_arg, features=None if arg_feats is None else list(arg_feats), filtered=filtered,
                                   logs=bool(op["logs"]), tables=bool(op["tables"]), basins=False, meta_prefix=prefix, override=override)
            except BaseException as ex:  # noqa: B036 (KeyboardInterrupt is one of the injected kinds)
                if type(ex).__name__ in ("StopRun", "SystemExit"):
                    raise
                attempt_exc = ex
            finally:
                seam.uninstall()
            if seam.fired:
                ctx.fault(op["fail_first"]["kind"])
                ctx.probe("export_repeated_after_failed_attempt")
                if attempt_exc is None:
                    ctx.probe("export_swallowed_injected_fault")
            ctx.log("a", f"export attempt {e['tag']}", f"fired={bool(seam.fired)} raised={type(attempt_exc).__name__ if attempt_exc is not None else None}")
            # (whatever the failed attempt left at the path is to be overwritten by the repetition)
            override = True
        with warnings.catch_warnings():
            warnings.simplefilter("ignore")
            allow = (Exception,) if (empty_source and not filtered) else None
            with ctx.sut("C02.export", allow=allow, sig=dict(base_sig, sel=cls if cls in ("0", "1") else "n")) as s:
                ds.export.hdf5(path_arg, features=None if arg_feats is None else list(arg_feats), filtered=filtered,
                               logs=bool(op["logs"]), tables=bool(op["tables"]), basins=False, meta_prefix=prefix,
                               override=override)
        ctx.state_ops += 1
        if s.exc is not None:
            ctx.count("empty_source_export_rejected")
            ctx.log("a", f"export {e['tag']} rejected (source without events, unfiltered)")
            return
        ctx.log("a", f"export {e['tag']} -> rtdc feats={'None' if arg_feats is None else arg_feats} filtered={filtered} logs={op['logs']} "
                     f"tables={op['tables']} prefix={prefix!r} override={override} k={k}/{n_src}", seeds.short_hash(src_idx))
        # ---- probes ----
        self.probe_export(e, root, req, k, n_src, filtered, sel, c_img, c_tr)
        if not path_out.exists():
            ctx.violation("C02.export", f"export.hdf5 returned but the output file {path_out.name} does not exist", sig=dict(base_sig, what="no_output_file"))
        if reuse is None:
            self.outputs.append({"path": path_out, "adopted": False})
        # ---- raw route ----
        self.tainted = False
        with h5py.File(path_out, "r") as h:
            self.check_raw(h, op, e, req, expected, k, base_sig, cls, prefix, src_logs, src_tables, export_log)
        # ---- dclab route ----
        with warnings.catch_warnings():
            warnings.simplefilter("ignore")
            with ctx.sut("C02.reopen", sig=dict(base_sig, empty=(k == 0))):
                dso = dclab.new_dataset(path_out)
            keep = False
            try:
                self.check_dclab(dso, op, e, req, expected, k, base_sig, cls, prefix, src_logs, src_tables, export_log, snap, src_id, filtered)
                if op.get("adopt") and k > 0 and len(self.pop) < 6 and not self.tainted:
                    keep = self.adopt(dso, path_out, req, expected, k, op, prefix, src_logs, src_tables, export_log)
            finally:
                if not keep:
                    dso.close()
        ctx.log("o", f"checked rtdc {path_out.name} k={k} feats={len(req)}")

    def probe_export(self, e, root, req, k, n_src, filtered, sel, c_img, c_tr):
        ctx = self.ctx
        if k == 0:
            ctx.probe("sel_empty")
        if k == 1:
            ctx.probe("sel_single")
        if filtered and k == n_src and n_src > 1:
            ctx.probe("sel_full_filtered")
        if not filtered and not sel.all():
            ctx.probe("unfiltered_with_active_filter")
        has_img = any(f in req for f in ("image", "image_bg", "mask", TMP_NS))
        for name, f in (("c-1", -1), ("c", 0), ("c+1", 1)):
            if (has_img and k == c_img + f) or ("trace" in req and k == c_tr + f):
                ctx.probe("sel_" + name)
        for name, f in (("2c", 0), ("2c+1", 1)):
            if (has_img and k == 2 * c_img + f) or ("trace" in req and k == 2 * c_tr + f):
                ctx.probe("sel_" + name)
        for f, p in ((TMP_NS, "nonscalar_temp_exported"), (TMP_SC, "scalar_temp_exported"), ("area_ratio", "ancillary_exported"),
                     ("contour", "contour_exported"), ("trace", "trace_exported"), ("mask", "mask_exported"), ("image_bg", "image_bg_exported")):
            if f in req:
                ctx.probe(p)
        if e["kind"] == "hier":
            ctx.probe("hier_child_export")
            if self.depth(e) >= 2:
                ctx.probe("hier_depth2_export")
        if root["kind"] == "basin":
            ctx.probe("basin_backed_export")
            if any(f not in root["innate"] and f not in (TMP_NS, TMP_SC, "area_ratio") for f in req):
                ctx.probe("basin_feature_exported")
        if root["kind"] == "tdms":
            ctx.probe("tdms_export")
        if root["kind"] == "lazy" and "image" in req:
            ctx.probe("lazy_stack_export")
        if root["kind"] == "export":
            ctx.probe("reexport_of_product")

    def source_logs(self, e):
        return self.root(e)["model"].logs

    def source_tables(self, e):
        return self.root(e)["model"].tables

    # ---- oracles: raw route ----
    def check_raw(self, h, op, e, req, expected, k, base_sig, cls, prefix, src_logs, src_tables, export_log):
        ctx = self.ctx
        ev = h["events"] if "events" in h else {}
        ctx.checked()
        ec = h.attrs.get("experiment:event count")
        if ec is None or int(ec) != k:
            ctx.violation("C02.event_count", f"stored event count is {ec!r} but {k} events were selected ({base_sig})",
                          sig={"what": "empty_selection_event_count"} if k == 0 else dict(base_sig, what="event_count", route="raw"),
                          fatal=(k != 0))
        if k == 0:
            # empty selection: no events for any requested feature
            for f in req:
                ctx.checked()
                if f in ev:
                    obj = ev[f]
                    nn = len(obj) if f != "trace" else max([len(obj[t]) for t in obj] or [0])
                    if nn:
                        ctx.violation("C02.empty.events", f"empty selection but feature {f} holds {nn} events", sig=dict(base_sig, feat=kind_of(f)))
            extra = [f for f in ev if f not in req]
            if extra:
                ctx.violation("C02.features.set", f"features {extra} were not requested", sig=dict(base_sig, what="extra"))
        else:
            ctx.checked()
            missing = [f for f in req if f not in ev]
            extra = [f for f in ev if f not in req]
            if missing:
                ctx.violation("C02.features.set", f"requested features {missing} are not in the output (has {sorted(ev)})",
                              sig=dict(base_sig, what="missing", feat=kind_of(missing[0])))
            if extra:
                ctx.violation("C02.features.set", f"features {extra} were not requested (requested {req})",
                              sig=dict(base_sig, what="extra", feat=kind_of(extra[0])))
            for f in req:
                ctx.checked()
                self.compare_raw(f, ev[f], expected[f], k, dict(base_sig, feat=kind_of(f), route="raw", sel=cls))
        if op["logs"]:
            lg = h["logs"] if "logs" in h else {}
            for name, lines in src_logs.items():
                ctx.checked()
                oname = prefix + name
                if oname not in lg:
                    ctx.violation("C02.logs.missing", f"source log {name!r} not found as {oname!r} (has {sorted(lg)})", sig=dict(base_sig, route="raw"))
                got = [x.decode("utf-8") if isinstance(x, bytes) else str(x) for x in lg[oname][:]]
                if got != list(lines):
                    self.log_violation(name, oname, lines, got, base_sig, "raw", oname == export_log)
        if op["tables"]:
            tb = h["tables"] if "tables" in h else {}
            for name, t in src_tables.items():
                ctx.checked()
                oname = prefix + name
                if oname not in tb:
                    ctx.violation("C02.tables.missing", f"source table {name!r} not found as {oname!r} (has {sorted(tb)})", sig=dict(base_sig, route="raw"))
                self.compare_table(name, tb[oname][:], dict(tb[oname].attrs), t, base_sig, "raw")

    def log_violation(self, name, oname, lines, got, base_sig, route, collides):
        detail = f"log {name!r} exported as {oname!r} ({route}): source has {len(lines)} lines, output has {len(got)}"
        for i, (a, b) in enumerate(zip(lines, got)):
            if a != b:
                detail += f"; first difference in line {i}: {b[:60]!r} != {a[:60]!r}"
                break
        sig = {"what": "prefix_collision_with_export_log"} if collides else dict(base_sig, route=route, what="lines")
        self.ctx.violation("C02.logs.lines", detail, sig=sig, fatal=not collides)

    def compare_table(self, name, arr, attrs, t, base_sig, route):
        ctx = self.ctx
        exp = t["data"]
        arr = np.asarray(arr)
        ok = arr.dtype.names == exp.dtype.names and len(arr) == len(exp) and all(
            np.array_equal(np.ravel(arr[c]), np.ravel(exp[c]), equal_nan=True) for c in exp.dtype.names)
        if not ok:
            ctx.violation("C02.tables.cells", f"table {name!r} differs from the source table ({route}): columns {arr.dtype.names} vs {exp.dtype.names}, "
                                              f"rows {len(arr)} vs {len(exp)}", sig=dict(base_sig, route=route))
        if t["attrs"]:
            ctx.probe("tables_with_attrs")
        for kk, vv in t["attrs"].items():
            got = attrs.get(kk, "<missing>")
            if isinstance(got, bytes):
                got = got.decode("utf-8")
            if isinstance(got, np.generic):
                got = got.item()
            if got != vv:
                ctx.violation("C02.tables.attrs", f"table {name!r}: attribute {kk!r} is {got!r} in the output, {vv!r} in the source ({route})",
                              sig=dict(base_sig, route=route))

    def compare_raw(self, f, obj, exp, k, sig):
        ctx = self.ctx
        if f == "contour":
            names = list(obj.keys())
            if len(names) != k:
                ctx.violation("C02.feature.value", f"contour group holds {len(names)} events, {k} selected", sig=dict(sig, what="count"))
            for i, c in enumerate(exp):
                if str(i) not in obj or not np.array_equal(obj[str(i)][:], c):
                    ctx.violation("C02.feature.value", f"contour of output event {i} differs from the source's selected event", sig=dict(sig, what="value"))
            return
        if f == "trace":
            missing = [t for t in exp if t not in obj]
            extra = [t for t in obj if t not in exp]
            if missing or extra:
                ctx.violation("C02.feature.value", f"trace names differ: missing {missing}, extra {extra}", sig=dict(sig, what="names"))
            for t, v in exp.items():
                got = obj[t][:]
                if not eq_nan(got, v):
                    ctx.violation("C02.feature.value", f"trace {t} differs from the source's selected events ({first_bad(got, v)})", sig=dict(sig, what="value"))
            return
        got = obj[:]
        if f == "mask":
            got = got != 0
        if not eq_nan(got, exp):
            if self.clipped_negative(got, exp):
                self.tainted = True
                ctx.violation("C02.feature.value", f"feature {f}: negative source values are stored as 0 in the unsigned output ({first_bad(got, exp)}; k={k})",
                              sig={"what": "negative_clipped_in_unsigned_feature"}, fatal=False)
                return
            ctx.violation("C02.feature.value", f"feature {f}: stored data differ from the source's selected events ({first_bad(got, exp)}; k={k})",
                          sig=dict(sig, what="value"))

    @staticmethod
    def clipped_negative(got, exp):
        got, exp = np.asarray(got), np.asarray(exp)
        return (got.shape == exp.shape and got.ndim == 1 and got.dtype.kind == "u" and exp.dtype.kind in "if"
                and bool((exp < 0).any()) and eq_nan(got, np.clip(exp, 0, None)))

    # ---- oracles: dclab route ----
    def check_dclab(self, dso, op, e, req, expected, k, base_sig, cls, prefix, src_logs, src_tables, export_log, snap, src_id, filtered):
        ctx = self.ctx
        ctx.checked()
        with ctx.sut("C02.read", sig=dict(base_sig, what="len")):
            n_out = len(dso)
            ec = dso.config["experiment"].get("event count")
        if n_out != k or ec != k:
            ctx.violation("C02.event_count", f"output reports len={n_out}, event count={ec!r}, but {k} events were selected",
                          sig={"what": "empty_selection_event_count"} if k == 0 else dict(base_sig, what="event_count", route="dclab"),
                          fatal=(k != 0))
        if k == 0:
            for f in req:
                ctx.checked()
                with ctx.sut("C02.read", sig=dict(base_sig, what="empty", feat=kind_of(f))):
                    offered = f in dso.features_innate
                    nn = 0
                    if offered:
                        obj = dso[f]
                        nn = flen(f, obj) if f == "trace" else len(obj)
                if nn:
                    ctx.violation("C02.empty.events", f"empty selection but dclab offers {nn} events of {f}", sig=dict(base_sig, feat=kind_of(f), route="dclab"))
        else:
            ctx.checked()
            with ctx.sut("C02.read", sig=dict(base_sig, what="features")):
                innate = sorted(dso.features_innate)
            # ("index" is served by every dataset as an enumeration; it is not an innate feature unless stored)
            missing = [f for f in req if f not in innate]
            extra = [f for f in innate if f not in req]
            if missing or extra:
                ctx.violation("C02.features.set", f"dclab lists stored features {innate}; requested {req}",
                              sig=dict(base_sig, what="missing" if missing else "extra", route="dclab", feat=kind_of((missing or extra)[0])))
            for f in req:
                ctx.checked()
                sig = dict(base_sig, feat=kind_of(f), route="dclab", sel=cls)
                with ctx.sut("C02.read", sig=sig):
                    ok, info = self.compare_dclab(f, dso, expected[f], k)
                if not ok:
                    ctx.violation("C02.feature.value", f"feature {f} read through dclab differs from the source's selected events ({info}; k={k})",
                                  sig=dict(sig, what="value"))
        # ---- metadata ----
        self.check_meta(dso, snap, src_id, filtered, req, base_sig)
        # ---- logs / tables ----
        if op["logs"]:
            for name, lines in src_logs.items():
                ctx.checked()
                ctx.probe("logs_carried")
                oname = prefix + name
                with ctx.sut("C02.read", sig=dict(base_sig, what="log")):
                    present = oname in dso.logs
                    got = list(dso.logs[oname]) if present else None
                if not present:
                    ctx.violation("C02.logs.missing", f"source log {name!r} not offered as {oname!r}", sig=dict(base_sig, route="dclab"))
                if got != list(lines):
                    self.log_violation(name, oname, lines, got, base_sig, "dclab", oname == export_log)
        if op["tables"]:
            for name, t in src_tables.items():
                ctx.checked()
                ctx.probe("tables_carried")
                oname = prefix + name
                with ctx.sut("C02.read", sig=dict(base_sig, what="table")):
                    present = oname in dso.tables
                    if present:
                        tab = dso.tables[oname]
                        arr = tab[:]
                        attrs = dict(tab.attrs)
                if not present:
                    ctx.violation("C02.tables.missing", f"source table {name!r} not offered as {oname!r}", sig=dict(base_sig, route="dclab"))
                self.compare_table(name, arr, attrs, t, base_sig, "dclab")

    def compare_dclab(self, f, dso, exp, k):
        if f == "contour":
            obj = dso["contour"]
            if len(obj) != k:
                return False, f"{len(obj)} contours"
            for i, c in enumerate(exp):
                if not np.array_equal(np.asarray(obj[i]), c):
                    return False, f"event {i}"
            return True, ""
        if f == "trace":
            obj = dso["trace"]
            names = sorted(obj.keys())
            if names != sorted(exp):
                return False, f"trace names {names} vs {sorted(exp)}"
            for t, v in exp.items():
                got = np.asarray(obj[t][:])
                if not eq_nan(got, v):
                    return False, f"trace {t}: {first_bad(got, v)}"
            return True, ""
        got = np.asarray(dso[f][:])
        if f == "mask" and got.dtype != bool:
            got = got != 0
        if not eq_nan(got, exp):
            if self.clipped_negative(got, exp):
                # (reported by the raw route)
                return True, ""
            return False, first_bad(got, exp)
        return True, ""

    def check_meta(self, dso, snap, src_id, filtered, req, base_sig):
        ctx = self.ctx
        cfg = dso.config
        for sec in sorted(snap):
            if sec == "user":
                ctx.probe("user_section")
            for key in sorted(snap[sec]):
                val = snap[sec][key]
                if (sec, key) == ("experiment", "event count"):
                    continue
                if sec == "fluorescence" and key == "samples per event" and "trace" in req:
                    continue
                if sec == "imaging" and key in ("roi size x", "roi size y") and ("image" in req or "mask" in req):
                    continue
                ctx.checked()
                if sec not in cfg or key not in cfg[sec]:
                    ctx.violation("C02.meta.missing", f"[{sec}]: {key} = {val!r} of the source is not in the output", sig=dict(base_sig, sec=sec, key=key))
                got = cfg[sec][key]
                if (sec, key) == ("experiment", "run identifier") and filtered:
                    ok = isinstance(got, str) and got.startswith(str(val) + "-") and len(got) == len(str(val)) + 5
                elif (sec, key) == ("setup", "software version"):
                    ok = isinstance(got, str) and (got == val or got.startswith(str(val) + " | dclab "))
                else:
                    ok = self.meta_equal(got, val)
                if not ok:
                    ctx.violation("C02.meta.value", f"[{sec}]: {key} is {got!r} in the output, {val!r} in the source", sig=dict(base_sig, sec=sec, key=key))
        # measurement identifier of a filtered export
        if filtered:
            ctx.checked()
            got = cfg["experiment"].get("run identifier") if "experiment" in cfg else None
            if src_id is None:
                if isinstance(got, str) and got.startswith("None"):
                    ctx.violation("C02.meta.run_identifier", f"the source has no measurement identifier, the output claims the run identifier {got[:4]!r}-xxxx",
                                  sig={"what": "run_identifier_none"}, fatal=False)
            elif not (isinstance(got, str) and got.startswith(str(src_id) + "-") and len(got) == len(str(src_id)) + 5):
                ctx.violation("C02.meta.run_identifier", "the run identifier of a filtered export is not the source's measurement identifier plus a 4-character suffix",
                              sig=dict(base_sig, what="run_identifier_suffix"))

    @staticmethod
    def meta_equal(got, val):
        if isinstance(got, np.generic):
            got = got.item()
        if isinstance(val, np.generic):
            val = val.item()
        if isinstance(got, bytes):
            got = got.decode("utf-8")
        if isinstance(val, float) and isinstance(got, (int, float)) and not isinstance(got, bool):
            return float(got) == val or (val != val and got != got)
        if isinstance(val, bool) or isinstance(got, bool):
            return bool(got) == bool(val) and isinstance(got, (bool, int)) and isinstance(val, (bool, int))
        if isinstance(val, (list, tuple, np.ndarray)):
            try:
                return bool(np.array_equal(np.asarray(got), np.asarray(val)))
            except Exception:
                return False
        return got == val

    # ---- a verified product becomes a source itself (history) ----
    def adopt(self, dso, path, req, expected, k, op, prefix, src_logs, src_tables, export_log):
        import h5py
        m = gen.ModelDataset()
        m.n = k
        for f in req:
            m.feats[f] = expected[f]
        with h5py.File(path, "r") as h:
            lg = h["logs"] if "logs" in h else {}
            if export_log in lg:
                # (the exporter's own log is not modelled: taken from the file)
                m.logs[export_log] = [x.decode("utf-8") if isinstance(x, bytes) else str(x) for x in lg[export_log][:]]
        if op["logs"]:
            for name, lines in src_logs.items():
                if prefix + name != export_log:
                    m.logs[prefix + name] = list(lines)
        if op["tables"]:
            for name, t in src_tables.items():
                m.tables[prefix + name] = copy.deepcopy(t)
        self.counter += 1
        e = {"ds": dso, "kind": "export", "model": m, "n": k, "parent": None, "stale": False, "tag": f"s{self.counter:02d}",
             "innate": list(req), "dirty": False}
        self.pop.append(e)
        for o in self.outputs:
            if o["path"] == path:
                o["adopted"] = True
        self.ctx.log("a", f"adopt {path.name} as {e['tag']}")
        return True

    # ------------------------------------------------------------------
    # tsv
    # ------------------------------------------------------------------
    def do_tsv(self, op):
        ctx = self.ctx
        e = self.entry(op)
        ds = e["ds"]
        root = self.root(e)
        m = root["model"]
        prep = self.prepare_export(e, op)
        if prep is None:
            return
        ids, sel = prep
        n_src = len(sel)
        filtered = bool(op["filtered"])
        arg_feats = [f for f in op["feats"] if f in m.feats and isinstance(m.feats[f], np.ndarray) and m.feats[f].ndim == 1]
        if not arg_feats:
            return
        req = sorted(set(arg_feats))
        if len(req) != len(arg_feats):
            ctx.probe("duplicates_in_list")
        idx = np.flatnonzero(sel) if filtered else np.arange(n_src)
        k = len(idx)
        src_idx = ids[idx]
        path_out = self.newpath("t", ".tsv")
        path_arg = path_out if op.get("suffix", True) else path_out.with_suffix("")
        if path_arg != path_out:
            ctx.probe("suffix_added")
        base_sig = {"src": e["kind"], "root": root["kind"], "filtered": filtered}
        ctx.state(e["kind"] if e["kind"] != "hier" else "hier/" + root["kind"], "tsv", filtered, self.sel_class(k, n_src, self.chunk_len("img")), "")
        with warnings.catch_warnings():
            warnings.simplefilter("ignore")
            with ctx.sut("C02.export", sig=dict(base_sig, fmt="tsv", sel="0" if k == 0 else "n")):
                ds.export.tsv(path_arg, features=list(arg_feats), filtered=filtered, override=bool(op["override"]))
        ctx.state_ops += 1
        ctx.probe("tsv_export")
        ctx.log("a", f"export {e['tag']} -> tsv feats={arg_feats} filtered={filtered} k={k}/{n_src}", seeds.short_hash(src_idx))
        if k == 0:
            ctx.probe("sel_empty")
        if k == 1:
            ctx.probe("sel_single")
        if e["kind"] == "hier":
            ctx.probe("hier_child_export")
        if not path_out.exists():
            ctx.violation("C02.export", f"export.tsv returned but the output file {path_out.name} does not exist", sig=dict(base_sig, what="no_output_file", fmt="tsv"))
        raw = path_out.read_bytes()
        if raw.startswith(b"\xef\xbb\xbf"):
            raw = raw[3:]
        lines = raw.decode("utf-8").split("\n")
        comments = [ln for ln in lines if ln.startswith("#")]
        rows = [ln for ln in lines if ln.strip() and not ln.startswith("#")]
        ctx.checked()
        header = comments[-2][1:].strip().split("\t") if len(comments) >= 2 else []
        if sorted(header) != req:
            ctx.violation("C02.tsv.columns", f"header lists {header}, requested {req}", sig=base_sig)
        ctx.checked()
        if len(rows) != k:
            ctx.violation("C02.tsv.rows", f"{len(rows)} data rows, {k} events selected", sig=dict(base_sig, empty=(k == 0)))
        try:
            vals = np.array([[float(x) for x in ln.split("\t")] for ln in rows], dtype=np.float64).reshape(len(rows), -1 if rows else len(header))
        except ValueError as exc:
            ctx.violation("C02.tsv.value", f"a data row cannot be parsed: {exc}", sig=dict(base_sig, what="parse"))
        if k and vals.shape[1] != len(header):
            ctx.violation("C02.tsv.columns", f"data rows have {vals.shape[1]} columns, header has {len(header)}", sig=base_sig)
        for f in req:
            ctx.checked()
            exp = np.asarray(m.feats[f][src_idx], dtype=np.float64)
            got = vals[:, header.index(f)] if k else np.zeros(0)
            if not np.isfinite(exp).all():
                ctx.probe("tsv_nan_or_inf")
            fin = np.isfinite(exp)
            ok = (got.shape == exp.shape and np.array_equal(np.isnan(got), np.isnan(exp))
                  and np.array_equal(got[~fin & ~np.isnan(exp)], exp[~fin & ~np.isnan(exp)])
                  and bool(np.all(np.abs(got[fin] - exp[fin]) <= 1e-9 * np.abs(exp[fin]))))
            if not ok:
                bad = np.flatnonzero(~((got == exp) | (np.isnan(got) & np.isnan(exp)) | (np.abs(got - exp) <= 1e-9 * np.abs(exp))))[:6].tolist() \
                    if got.shape == exp.shape else "shape"
                ctx.violation("C02.tsv.value", f"column {f}: rows {bad} differ from the source's selected events beyond the written precision",
                              sig=dict(base_sig, feat=kind_of(f)))
        ctx.log("o", f"checked tsv {path_out.name} k={k} feats={len(req)}")


def run_ragged(trace, ctx):
    """A file whose features do not all have the same length (e.g. an image series shorter than the scalar features):
    the export limits the event count to the shortest feature.  Judged: every feature written has the same length, the
    event count matches it, and the values are those of the selected events among the first l_min.
    Only non-scalar features are made short (the case export.hdf5 documents and handles); a *scalar* feature shorter
    than len(ds) makes store_filtered_feature raise IndexError (boolean index of the wrong length) - observed, not
    judged: the statement does not quantify over files whose scalar features disagree in length."""
    import dclab
    import h5py
    from dclab.rtdc_dataset.writer import RTDCWriter

    def gen_op(r):
        if not ctx_ops:
            n = r.choice([5, 9, 23, 40])
            return {"k": "ragged_new", "n": n, "short": {f: r.randint(1, min(4, n - 1)) for f in r.sample(["image", "mask"], r.randint(1, 2))},
                    "dseed": r.randrange(1 << 30)}
        return {"k": "ragged_export", "filtered": r.random() < 0.7, "mask": r.choice(["full", "full", "some", "tail_only"]),
                "mseed": r.randrange(1 << 30), "feats": r.choice(["all", "all", "scalars+image", "short_last"])}
    ctx_ops = []
    src = ctx.scratch / "ragged.rtdc"
    data = {}
    nexp = 0
    while True:
        op = ctx.next_op(gen_op, max_ops=min(4, trace.get("max_ops", 4)))
        if op is None:
            break
        ctx_ops.append(op)
        if op["k"] == "ragged_new":
            if data:
                continue
            n = op["n"]
            m = gen.gen_model(op["dseed"], n, scalars=["area_um", "deform", "pos_x", "time"], image=True, mask=True, n_logs=1)
            data = {f: (v[:n - op["short"][f]] if f in op["short"] else v) for f, v in m.feats.items()}
            with RTDCWriter(src, mode="reset") as hw:
                hw.store_metadata(m.meta)
                for f, v in data.items():
                    hw.store_feature(f, v)
            with h5py.File(src, "r") as hs:
                # (truth = what the source file stores)
                data = {f: hs["events"][f][()] for f in data}
            ctx.probe("ragged_source")
            ctx.log("a", f"ragged_new n={n} short={sorted(op['short'].items())}")
            continue
        if not data:
            continue
        nexp += 1
        out = ctx.scratch / f"ragged_out{nexp}.rtdc"
        feats = sorted(data)
        if op["feats"] == "scalars+image":
            feats = [f for f in feats if f != "mask"]
        elif op["feats"] == "short_last":
            feats = sorted(feats, key=lambda f: len(data[f]), reverse=True)
        lens = [len(data[f]) for f in feats]
        l_min = min(lens)
        with warnings.catch_warnings():
            warnings.simplefilter("ignore")
            with dclab.new_dataset(src) as ds:
                n = len(ds)
                sel = np.ones(n, dtype=bool)
                rs = seeds.np_rng(op["mseed"], "mask")
                if op["mask"] == "some":
                    sel = rs.random(n) < 0.6
                    sel[0] = True
                elif op["mask"] == "tail_only":
                    sel[:] = True
                    sel[-1] = False
                if not sel.all():
                    ds.filter.manual[:] = sel
                    ds.apply_filter()
                with ctx.sut("C02.export.raises", sig={"what": "ragged"}):
                    ds.export.hdf5(out, features=feats, filtered=op["filtered"])
        eff = (sel if op["filtered"] else np.ones(n, dtype=bool))[:l_min]
        ctx.checked()
        ctx.state_ops += 1
        ctx.state("ragged", op["filtered"], op["mask"], len(set(lens)) > 1)
        if len(set(lens)) > 1 and eff.all() and op["filtered"]:
            ctx.probe("ragged_nothing_filtered_out")
        with h5py.File(out, "r") as h:
            got_len = {f: h["events"][f].shape[0] for f in h["events"] if isinstance(h["events"][f], h5py.Dataset)}
            cnt = int(h.attrs.get("experiment:event count", -1))
            sig = {"what": "ragged", "filtered": bool(op["filtered"]), "all_selected": bool(eff.all())}
            if len(set(got_len.values())) > 1 or (got_len and cnt != next(iter(got_len.values()))):
                ctx.violation("C02.count", f"export of a file with feature lengths {dict(zip(feats, lens))} (filtered={op['filtered']}, "
                                           f"{int(eff.sum())} of the first {l_min} events selected) wrote feature lengths {got_len} "
                                           f"and event count {cnt}", sig=sig)
            else:
                for f in feats:
                    exp = np.asarray(data[f])[:l_min][eff]
                    if f not in h["events"] or not eq_nan(np.asarray(h["events"][f][()]), exp):
                        ctx.violation("C02.values", f"ragged source: exported feature {f} is not the source restricted to the selected "
                                                    f"events among the first {l_min}", sig=dict(sig, feat=f))
                        break
        ctx.log("x", f"ragged_export filtered={op['filtered']} {op['mask']} {op['feats']}", seeds.short_hash(eff))
    ctx.info["sample"] = {"knobs": trace["knobs"], "ops": ctx_ops[:4], "sources": ["ragged-hdf5"]}


def run(trace, ctx):
    import dclab
    seams.set_knob_chunk_bytes(trace["knobs"]["chunk_bytes"])
    if trace["knobs"].get("ragged"):
        return run_ragged(trace, ctx)
    dclab.register_temporary_feature(TMP_NS, is_scalar=False)
    dclab.register_temporary_feature(TMP_SC, is_scalar=True)
    w = World(trace, ctx)
    while True:
        op = ctx.next_op(w.gen_op, max_ops=trace.get("max_ops", 10))
        if op is None:
            break
        w.execute(op)
    ctx.info["sample"] = {"knobs": trace["knobs"], "ops": (trace.get("ops") or [])[:8], "sources": [e["kind"] for e in w.pop]}


def simplify(trace):
    """candidate simplifications: fewer requested features, no logs/tables, no embedded selection"""
    ops = trace.get("ops") or []
    for i, op in enumerate(ops):
        if op.get("k") in ("export", "tsv"):
            feats = op.get("feats")
            if feats and len(feats) > 1:
                for j in range(len(feats)):
                    o2 = dict(op)
                    o2["feats"] = feats[:j] + feats[j + 1:]
                    t = dict(trace)
                    t["ops"] = ops[:i] + [o2] + ops[i + 1:]
                    yield t
            for key in ("logs", "tables", "adopt", "reuse"):
                if op.get(key):
                    o2 = dict(op)
                    o2[key] = False
                    t = dict(trace)
                    t["ops"] = ops[:i] + [o2] + ops[i + 1:]
                    yield t
            if op.get("sel"):
                o2 = dict(op)
                o2["sel"] = None
                t = dict(trace)
                t["ops"] = ops[:i] + [o2] + ops[i + 1:]
                yield t
        if op.get("k") == "new" and op.get("kind") != "tdms":
            for key in ("image", "image_bg", "mask", "contour", "trace", "tmp_ns", "tmp_sc", "user", "special", "long_logs"):
                if op.get(key) and not (key == "image" and op.get("kind") == "lazy"):
                    o2 = dict(op)
                    o2[key] = False
                    t = dict(trace)
                    t["ops"] = ops[:i] + [o2] + ops[i + 1:]
                    yield t
            for key in ("n_logs", "n_tables"):
                if op.get(key):
                    o2 = dict(op)
                    o2[key] = 0
                    t = dict(trace)
                    t["ops"] = ops[:i] + [o2] + ops[i + 1:]
                    yield t
