"""C03 — the combined event filter equals the specification of the current settings.

World B (in memory), single actor, history only: seeded sequences of filter
setting edits and applications; after every application the filter arrays are
compared with a stateless evaluation of the *current* settings."""
import warnings

import numpy as np

from dst import seeds

NAME = "C03"
PROPERTY = "C03"
LEVEL = "exploration"
RULE = ("one evaluation = one seeded history (<= 60 operations on a dataset of <= 400 events, dict- or file-backed) of "
        "{set/change/remove a range, add/modify/invert/remove a polygon filter, toggle invalid removal, toggle enable, "
        "set/clear the event limit, edit manual exclusions, reset, apply (also with force)}; after every apply "
        "filter.all/box/polygon/invalid are compared with a stateless evaluation of the current settings (independent "
        "even-odd polygon test), and at the end with a freshly built dataset given the same final settings. "
        "non-trivial = >=1 setting change and >=1 comparison; distinct = distinct event-log digests")
STATE_MEASURE = "distinct (active ranges, #polygons, invalid flag, enabled flag, limit>0, manual-any, previous operation kind) tuples"
PROBES = ["removed_range_entered_again", "apply_retried_after_transient_read_fault", "settings_transferred_to_second_dataset", "lookalike_dataset_filtered_before", "polygon_removed_via_config", "half_specified_range", "apply_failed_on_half_range", "range_removed_after_apply", "range_reversed", "range_min_eq_max", "bound_tied_with_data", "nan_in_range_feature",
          "polygon_modified_in_place", "polygon_inverted", "polygon_removed", "limit_binding", "limit_not_binding",
          "disabled", "reset_with_state", "manual_edit", "force_apply", "file_backed", "apply_twice_same"]
COMPONENTS = {"real": ["dclab Filter.update / RTDCBase.apply_filter / Configuration", "dclab PolygonFilter + compiled points_in_poly",
                       "dclab downsampling.downsample_rand (event limit)", "RTDC_Dict / RTDC_HDF5"],
              "stub": ["wall clock", "identity sources"]}
ASSUMPTIONS = [
    "polygon axes features hold finite values; query points closer than 1e-12*scale to a polygon edge are not judged (none occurred if probe near_edge_skipped is 0)",
    "the invalid-value exclusion refers to the scalar features the dataset lists (ds.features_scalar)",
    "a range is set and removed as a pair (min and max together), as the API demands",
]

FEATS = ["area_um", "deform", "bright_avg", "pos_x", "userdef1", "time"]


def plan(tier):
    if tier == "quick":
        return {"runs": 5000, "budget_s": 45, "run_timeout_s": 120, "det_pairs": 3}
    return {"runs": 400000, "budget_s": 780, "run_timeout_s": 180, "det_pairs": 3}


def make_trace(seed, tier):
    r = seeds.rng(seed, "plan")
    return {"knobs": {"n": r.choice([1, 5, 40, 120, 400]), "backing": r.choice(["dict", "dict", "dict", "file"]),
                      "nan": r.choice(["none", "some", "some", "inf"])},
            "max_ops": r.choice([8, 20, 40, 60]), "ops": None}


def make_data(seed, n, nan):
    rs = seeds.np_rng(seed, "data")
    d = {
        "area_um": rs.uniform(20, 200, size=n),
        "deform": rs.uniform(0.0, 0.3, size=n),
        "bright_avg": rs.uniform(50, 150, size=n),
        "pos_x": rs.uniform(0, 100, size=n),
        "userdef1": np.round(rs.uniform(0, 10, size=n)),   # heavy ties
        "time": np.cumsum(rs.uniform(0.001, 0.1, size=n)),
    }
    if nan != "none" and n:
        for f in ("bright_avg", "pos_x", "userdef1"):
            m = rs.random(n) < 0.15
            d[f][m] = np.nan
        if nan == "inf":
            d["pos_x"][rs.random(n) < 0.1] = np.inf
            d["bright_avg"][rs.random(n) < 0.05] = -np.inf
    return d


def evenodd(px, py, verts):
    """Independent even-odd (ray casting) test + distance of each point to the boundary."""
    n = len(verts)
    inside = np.zeros(len(px), dtype=bool)
    dmin = np.full(len(px), np.inf)
    for i in range(n):
        x1, y1 = verts[i]
        x2, y2 = verts[(i + 1) % n]
        cond = (y1 > py) != (y2 > py)
        with np.errstate(divide="ignore", invalid="ignore"):
            xint = (x2 - x1) * (py - y1) / (y2 - y1) + x1
        inside ^= cond & (px < xint)
        # distance to the segment
        dx, dy = x2 - x1, y2 - y1
        L2 = dx * dx + dy * dy
        if L2 == 0:
            dist = np.hypot(px - x1, py - y1)
        else:
            t = np.clip(((px - x1) * dx + (py - y1) * dy) / L2, 0, 1)
            dist = np.hypot(px - (x1 + t * dx), py - (y1 + t * dy))
        dmin = np.minimum(dmin, dist)
    return inside, dmin


class World:
    def __init__(self, trace, ctx):
        import dclab
        self.ctx = ctx
        k = trace["knobs"]
        self.n = k["n"]
        self.data = make_data(ctx.seed, self.n, k["nan"])
        self.backing = k["backing"]
        if self.backing == "dict" and self.n > 2 and seeds.H(ctx.seed, "lookalike") % 3 == 0:
            # a look-alike dataset handled before: same alphabetically first feature and the same feature names, invalid
            # values at other events; its invalid events were removed
            first = sorted(self.data)[0]
            dd = {}
            for f, v in self.data.items():
                w = np.array(v, dtype=float, copy=True)
                if f != first:
                    w = np.where(np.isfinite(w), w, 1.0)
                    w[(seeds.H(ctx.seed, "la", f) % self.n)] = np.nan
                    w[(seeds.H(ctx.seed, "lb", f) % self.n)] = np.inf
                dd[f] = w
            la = dclab.new_dataset(dd)
            la.config["filtering"]["remove invalid events"] = True
            with warnings.catch_warnings():
                warnings.simplefilter("ignore")
                la.apply_filter()
            self.lookalike = la
            ctx.probe("lookalike_dataset_filtered_before")
        self.ds = self.build()
        self.polys = []          # PolygonFilter objects registered with the dataset
        self.applied_once = False
        self.prev = "init"
        self.dirty = False

    def build(self):
        import dclab
        if self.backing == "file":
            from dclab.rtdc_dataset.writer import RTDCWriter
            p = self.ctx.scratch / "c03.rtdc"
            if not p.exists():
                with RTDCWriter(p, mode="reset") as hw:
                    hw.store_metadata({"setup": {"software version": "ShapeIn 2.2.2.4"},
                                       "experiment": {"sample": "s", "run index": 1}})
                    for f, v in self.data.items():
                        hw.store_feature(f, v)
            self.ctx.probe("file_backed")
            from dst import faultfs
            if getattr(self, "rseam", None) is None:
                self.rseam = faultfs.ReadFaultSeam().install()
            return dclab.new_dataset(p)
        return dclab.new_dataset({f: v.copy() for f, v in self.data.items()})

    # ---------------- generation ----------------
    def gen_op(self, r):
        cfg = self.ds.config["filtering"]
        half = [f for f in FEATS if (f + " min" in cfg) != (f + " max" in cfg)]
        if half:
            # a range of which only one bound was entered so far: applying now fails; the user completes it afterwards
            y = r.random()
            if y < 0.5:
                return {"k": "apply", "force": []}
            if y < 0.9:
                v = self.data[half[0]]
                fin = v[np.isfinite(v)]
                return {"k": "complete_range", "feat": half[0], "val": float(fin[r.randrange(fin.size)]) if fin.size else 0.5}
        back = sorted(getattr(self, "removed_applied", {}))
        if back and r.random() < 0.35:
            # the user enters a range again that was removed (and the removal applied) before: exactly the old bounds
            f = r.choice(back)
            lo, hi = self.removed_applied.pop(f)
            return {"k": "set_range", "feat": f, "lo": lo, "hi": hi, "again": True}
        if getattr(self, "rseam", None) is not None and self.dirty and r.random() < 0.12:
            # the backing file fails once while the changed settings are applied; the caller applies again
            return {"k": "faultapply", "at": r.choice([0, 0, 0, 1, 1, 2, 3, 5, 8]), "kind": r.choice(["err", "err", "intr"])}
        x = r.random()
        if x < 0.07 and x >= 0.04:
            # the settings are transferred to a second dataset (config.update), which then gets a polygon of its own
            return {"k": "twin_transfer", "dseed": r.randrange(1 << 30), "how": r.choice(["config", "section"])}
        if x < 0.04:
            f = r.choice(FEATS)
            v = self.data[f]
            fin = v[np.isfinite(v)]
            return {"k": "half_range", "feat": f, "which": r.choice(["min", "max"]), "val": float(fin[r.randrange(fin.size)]) if fin.size else 0.5}
        if x < 0.22:
            f = r.choice(FEATS)
            v = self.data[f]
            fin = v[np.isfinite(v)]

            def bound():
                if fin.size and r.random() < 0.5:
                    return float(fin[r.randrange(fin.size)])      # tie with a data value
                lo_, hi_ = (float(fin.min()), float(fin.max())) if fin.size else (0.0, 1.0)
                return r.uniform(lo_ - 0.1 * (hi_ - lo_ + 1), hi_ + 0.1 * (hi_ - lo_ + 1))
            lo, hi = bound(), bound()
            y = r.random()
            if y < 0.15:
                hi = lo
            elif y < 0.6 and lo > hi:
                lo, hi = hi, lo
            return {"k": "set_range", "feat": f, "lo": lo, "hi": hi}
        if x < 0.30:
            return {"k": "rm_range", "feat": r.choice(FEATS)}
        if x < 0.40:
            return {"k": "add_poly", "dseed": r.randrange(1 << 30), "inverted": r.random() < 0.3,
                    "axes": r.choice([["area_um", "deform"], ["deform", "area_um"], ["area_um", "time"]])}
        if x < 0.46:
            return {"k": "mod_poly", "which": r.randrange(8), "dseed": r.randrange(1 << 30)}
        if x < 0.50:
            return {"k": "inv_poly", "which": r.randrange(8)}
        if x < 0.55:
            return {"k": "rm_poly", "which": r.randrange(8), "via": r.choice(["api", "api", "config", "config_inplace"])}
        if x < 0.60:
            return {"k": "toggle_invalid"}
        if x < 0.65:
            return {"k": "toggle_enable"}
        if x < 0.72:
            return {"k": "set_limit", "L": r.choice([0, 0, 1, 2, 5, self.n // 2, self.n, self.n + 3, 10])}
        if x < 0.80:
            cnt = r.choice([1, 1, 3, max(1, self.n // 4)])
            return {"k": "manual", "idx": [r.randrange(max(1, self.n)) for _ in range(cnt)], "val": r.random() < 0.25}
        if x < 0.83:
            return {"k": "reset"}
        return {"k": "apply", "force": [r.choice(FEATS)] if r.random() < 0.15 else []}

    # ---------------- execution ----------------
    def execute(self, op):
        ctx = self.ctx
        ds = self.ds
        cfg = ds.config["filtering"]
        k = op["k"]
        if k == "set_range":
            f = op["feat"]
            cfg[f + " min"] = op["lo"]
            cfg[f + " max"] = op["hi"]
            if op["lo"] > op["hi"]:
                ctx.probe("range_reversed")
            if op["lo"] == op["hi"]:
                ctx.probe("range_min_eq_max")
            if op.get("again"):
                ctx.probe("removed_range_entered_again")
            v = self.data[f]
            if np.any(v == op["lo"]) or np.any(v == op["hi"]):
                ctx.probe("bound_tied_with_data")
            if np.isnan(v).any():
                ctx.probe("nan_in_range_feature")
            ctx.log("a", f"set_range {f}", seeds.short_hash([op["lo"], op["hi"]]))
        elif k == "twin_transfer":
            import dclab
            half = [f for f in FEATS if (f + " min" in cfg) != (f + " max" in cfg)]
            if half:
                return
            twin = dclab.new_dataset({f: v.copy() for f, v in self.data.items()})
            with ctx.sut("C03.twin"), warnings.catch_warnings():
                warnings.simplefilter("ignore")
                if op["how"] == "config":
                    twin.config.update(ds.config)
                else:
                    twin.config.update({"filtering": ds.config["filtering"]})
                pts = self.poly_points(op["dseed"], ["area_um", "deform"])
                pf2 = dclab.PolygonFilter(axes=("area_um", "deform"), points=pts)
                twin.polygon_filter_add(pf2)
                twin.apply_filter()
            self.twins = getattr(self, "twins", []) + [(twin, pf2)]
            self.foreign_ids = getattr(self, "foreign_ids", set()) | {pf2.unique_id}
            ctx.probe("settings_transferred_to_second_dataset")
            ctx.log("a", f"twin_transfer {op['how']}")
        elif k == "half_range":
            f = op["feat"]
            if f + " min" in cfg or f + " max" in cfg:
                return
            cfg[f + " " + op["which"]] = op["val"]
            ctx.probe("half_specified_range")
            ctx.log("a", f"half_range {f} {op['which']}", seeds.short_hash(op["val"]))
        elif k == "complete_range":
            f = op["feat"]
            if (f + " min" in cfg) == (f + " max" in cfg):
                return
            other = "max" if f + " min" in cfg else "min"
            cfg[f + " " + other] = op["val"]
            ctx.log("a", f"complete_range {f}", seeds.short_hash(op["val"]))
        elif k == "rm_range":
            f = op["feat"]
            if (f + " min" in cfg) != (f + " max" in cfg):
                # (drop the half-entered bound)
                cfg.pop(f + " min", None)
                cfg.pop(f + " max", None)
                ctx.log("a", f"rm_range {f} (half)")
                ctx.state_ops += 1
                self.prev = k
                self.dirty = True
                return
            if f + " min" not in cfg:
                return
            lo_, hi_ = cfg.pop(f + " min"), cfg.pop(f + " max")
            if not hasattr(self, "removed"):
                self.removed, self.removed_applied = {}, {}
            self.removed[f] = (float(lo_), float(hi_))
            if self.applied_once:
                ctx.probe("range_removed_after_apply")
            ctx.log("a", f"rm_range {f}")
        elif k == "add_poly":
            import dclab
            if len(self.polys) >= 4:
                return
            pts = self.poly_points(op["dseed"], op["axes"])
            pf = dclab.PolygonFilter(axes=tuple(op["axes"]), points=pts, inverted=bool(op["inverted"]))
            ds.polygon_filter_add(pf)
            self.polys.append(pf)
            ctx.log("a", f"add_poly {op['axes']} inv={op['inverted']}", seeds.short_hash(pts))
        elif k == "mod_poly":
            if not self.polys:
                return
            pf = self.polys[op["which"] % len(self.polys)]
            pts = self.poly_points(op["dseed"], list(pf.axes))
            pf.points = pts
            ctx.probe("polygon_modified_in_place")
            ctx.log("a", "mod_poly", seeds.short_hash(pts))
        elif k == "inv_poly":
            if not self.polys:
                return
            pf = self.polys[op["which"] % len(self.polys)]
            pf.inverted = not pf.inverted
            ctx.probe("polygon_inverted")
            ctx.log("a", "inv_poly")
        elif k == "rm_poly":
            if not self.polys:
                return
            pf = self.polys.pop(op["which"] % len(self.polys))
            left = [int(i) for i in cfg["polygon filters"] if i != pf.unique_id]
            via = op.get("via", "api")
            if via != "api" and 0 in left:
                via = "api"     # (a list containing the identifier 0 cannot be assigned: fintlist([0]) == [], C11)
            if via == "config":
                # the user edits the list of the configuration instead of calling polygon_filter_rm
                cfg["polygon filters"] = left
                ctx.probe("polygon_removed_via_config")
            elif via == "config_inplace":
                cfg["polygon filters"].remove(pf.unique_id)
                ctx.probe("polygon_removed_via_config")
            else:
                ds.polygon_filter_rm(pf)
            ctx.probe("polygon_removed")
            ctx.log("a", "rm_poly")
        elif k == "toggle_invalid":
            cfg["remove invalid events"] = not cfg["remove invalid events"]
            ctx.log("a", "toggle_invalid", cfg["remove invalid events"])
        elif k == "toggle_enable":
            cfg["enable filters"] = not cfg["enable filters"]
            ctx.log("a", "toggle_enable", cfg["enable filters"])
        elif k == "set_limit":
            cfg["limit events"] = int(op["L"])
            ctx.log("a", "set_limit", op["L"])
        elif k == "manual":
            if self.n == 0:
                return
            idx = [i % self.n for i in op["idx"]]
            ds.filter.manual[idx] = bool(op["val"])
            ctx.probe("manual_edit")
            ctx.log("a", "manual", seeds.short_hash([idx, op["val"]]))
        elif k == "reset":
            if self.applied_once:
                ctx.probe("reset_with_state")
            with ctx.sut("C03.reset"):
                ds.reset_filter()
            self.polys = []
            ctx.log("a", "reset")
        elif k == "apply":
            self.apply_and_check(op.get("force") or [])
            return
        elif k == "faultapply":
            self.do_faultapply(op)
            return
        ctx.state_ops += 1
        self.prev = k
        self.dirty = True

    def do_faultapply(self, op):
        """One read of the backing file fails (OSError / interrupt) while the settings are applied; then the caller applies
        again: the result must equal the specification (state left behind by the failed application is what is judged)."""
        ctx = self.ctx
        seam = getattr(self, "rseam", None)
        cfg0 = self.ds.config["filtering"]
        if seam is None or [f for f in FEATS if (f + " min" in cfg0) != (f + " max" in cfg0)]:
            return
        # the file's scalar features are cold again, as right after opening it (RTDC_HDF5 keeps them in memory after the first read)
        for ev in list(getattr(getattr(self.ds, "_events", None), "_cached_events", {}).values()):
            if getattr(ev, "_array", None) is not None and hasattr(ev, "h5ds"):
                ev._array = None
        seam.arm(op["at"], op["kind"])
        raised = None
        try:
            with warnings.catch_warnings():
                warnings.simplefilter("ignore")
                self.ds.apply_filter()
        except BaseException as e:  # noqa: B036 (KeyboardInterrupt is one of the injected kinds)
            if type(e).__name__ in ("StopRun", "SystemExit"):
                seam.disarm()
                raise
            raised = e
        fired = seam.disarm()
        ctx.log("c", "faultapply", f"fired={fired} raised={type(raised).__name__ if raised is not None else None}")
        if raised is not None and not fired:
            ctx.violation("C03.apply", f"apply_filter raised {type(raised).__name__}: {raised}", sig={"exc": type(raised).__name__, "where": "faultapply"})
        if fired:
            ctx.fault("read_" + op["kind"])
            ctx.probe("apply_retried_after_transient_read_fault")
            self.prev = "failed_apply"
        self.dirty = True
        self.apply_and_check([])

    def poly_points(self, dseed, axes):
        rs = seeds.np_rng(dseed, "poly")
        nv = int(rs.integers(3, 8))
        lo = np.array([np.nanmin(self.data[a]) if self.n else 0.0 for a in axes])
        hi = np.array([np.nanmax(self.data[a]) if self.n else 1.0 for a in axes])
        span = np.where(hi > lo, hi - lo, 1.0)
        return lo + rs.uniform(-0.1, 1.1, size=(nv, 2)) * span

    # ---------------- specification ----------------
    def spec(self):
        """Stateless evaluation of the current settings -> dict of arrays (or None if not judgeable)."""
        ds = self.ds
        cfg = ds.config["filtering"]
        n = self.n
        box = np.ones(n, dtype=bool)
        for f in FEATS:
            a, b = f + " min", f + " max"
            if a in cfg and b in cfg and cfg[a] != cfg[b]:
                lo, hi = cfg[a], cfg[b]
                if lo > hi:
                    lo, hi = hi, lo
                v = self.data[f]
                with np.errstate(invalid="ignore"):
                    box &= (~np.isnan(v)) & (v >= lo) & (v <= hi)
        poly = np.ones(n, dtype=bool)
        judgeable = True
        for pid in cfg["polygon filters"]:
            pf = [p for p in self.polys if p.unique_id == pid]
            if not pf and pid in getattr(self, "foreign_ids", set()):
                self.ctx.violation("C03.polygon", f"the settings list polygon filter {pid}, which was registered with ANOTHER dataset only "
                                                  f"(after this dataset's settings were transferred to it)", sig={"what": "foreign_polygon"})
            if not pf:
                return None
            pf = pf[0]
            px, py = self.data[pf.axes[0]], self.data[pf.axes[1]]
            verts = np.asarray(pf.points, dtype=float)
            inside, dmin = evenodd(px, py, verts)
            scale = max(1.0, float(np.max(np.abs(verts))))
            if n and np.min(dmin) < 1e-12 * scale:
                judgeable = False
            poly &= (~inside if pf.inverted else inside)
        inval = np.ones(n, dtype=bool)
        if cfg["remove invalid events"]:
            for f in ds.features_scalar:
                v = self.data[f] if f in self.data else np.asarray(ds[f])
                inval &= np.isfinite(np.asarray(v, dtype=float))
        manual = np.array(ds.filter.manual, dtype=bool)
        qual = box & poly & inval & manual
        return {"box": box, "polygon": poly, "invalid": inval, "qual": qual, "judgeable": judgeable,
                "enabled": bool(cfg["enable filters"]), "limit": int(cfg["limit events"])}

    def apply_and_check(self, force):
        ctx = self.ctx
        ds = self.ds
        cfg0 = ds.config["filtering"]
        half = [f for f in FEATS if (f + " min" in cfg0) != (f + " max" in cfg0)]
        with warnings.catch_warnings():
            warnings.simplefilter("ignore")
            with ctx.sut("C03.apply", allow=(ValueError,) if half else None) as s_:
                ds.apply_filter(force=force)
        if half:
            # settings that cannot be applied: nothing to compare with (whether it raised or not); what follows must
            # again equal the specification
            ctx.probe("apply_failed_on_half_range" if s_.exc is not None else "apply_tolerated_half_range")
            ctx.log("c", "apply half-specified", "raised" if s_.exc is not None else "ok")
            self.dirty = True
            return
        if force:
            ctx.probe("force_apply")
        if not self.dirty and self.applied_once:
            ctx.probe("apply_twice_same")
        self.dirty = False
        self.applied_once = True
        if getattr(self, "removed", None):
            cfg_ = ds.config["filtering"]
            for f_ in list(self.removed):
                v_ = self.removed.pop(f_)
                if f_ + " min" not in cfg_ and f_ + " max" not in cfg_:
                    self.removed_applied[f_] = v_
        sp = self.spec()
        if sp is None:
            return
        if not sp["judgeable"]:
            ctx.probe("near_edge_skipped")
            return
        cfg = ds.config["filtering"]
        n_ranges = sum(1 for f in FEATS if f + " min" in cfg and cfg[f + " min"] != cfg.get(f + " max"))
        ctx.state(n_ranges, len(cfg["polygon filters"]), cfg["remove invalid events"], cfg["enable filters"],
                  cfg["limit events"] > 0, bool((~ds.filter.manual).any()), self.prev)
        got_all = np.array(ds.filter.all)
        sig = {"prev": self.prev}
        for name in ("box", "polygon", "invalid"):
            ctx.checked()
            got = np.array(getattr(ds.filter, name))
            if not np.array_equal(got, sp[name]):
                bad = np.flatnonzero(got != sp[name])[:6].tolist()
                ctx.violation(f"C03.{name}", f"filter.{name} differs from the specification of the current settings at events {bad} "
                                             f"(got {got[bad].tolist()}, expected {sp[name][bad].tolist()}); settings: {self.settings_str()}",
                              sig=dict(sig, which=name))
        ctx.checked()
        if not sp["enabled"]:
            ctx.probe("disabled")
            if not got_all.all():
                ctx.violation("C03.all.disabled", "filters are disabled but not every event is selected", sig=sig)
        else:
            q = int(sp["qual"].sum())
            L = sp["limit"]
            if L > 0 and q > L:
                ctx.probe("limit_binding")
                if got_all.sum() != L or np.any(got_all & ~sp["qual"]):
                    ctx.violation("C03.all.limit", f"event limit {L} with {q} qualifying events: {int(got_all.sum())} selected, "
                                                   f"{int((got_all & ~sp['qual']).sum())} of them not qualifying", sig=sig)
                # reproducible on re-application
                with warnings.catch_warnings():
                    warnings.simplefilter("ignore")
                    ds.apply_filter()
                if not np.array_equal(np.array(ds.filter.all), got_all):
                    ctx.violation("C03.all.limit_repro", "re-applying the same settings selected different events", sig=sig)
            else:
                if L > 0:
                    ctx.probe("limit_not_binding")
                if not np.array_equal(got_all, sp["qual"]):
                    bad = np.flatnonzero(got_all != sp["qual"])[:6].tolist()
                    ctx.violation("C03.all", f"filter.all differs from the conjunction of the current settings at events {bad} "
                                             f"(got {got_all[bad].tolist()}, expected {sp['qual'][bad].tolist()}); settings: {self.settings_str()}",
                                  sig=sig)
        ctx.log("o", f"apply force={force}", seeds.short_hash(got_all))
        self.prev = "apply"

    def settings_str(self):
        cfg = self.ds.config["filtering"]
        return str({k: cfg[k] for k in sorted(cfg.keys()) if k != "hierarchy parent"})[:500]

    def final_fresh_check(self):
        """Same final settings on a freshly built dataset give the same selection."""
        ctx = self.ctx
        ds = self.ds
        cfg0 = ds.config["filtering"]
        for f in FEATS:
            if (f + " min" in cfg0) != (f + " max" in cfg0):
                # the history ends with a half-entered range: drop it (settings that cannot be applied have no selection)
                cfg0.pop(f + " min", None)
                cfg0.pop(f + " max", None)
        self.apply_and_check([])
        fresh = self.build() if self.backing == "dict" else None
        if fresh is None:
            import dclab
            fresh = dclab.new_dataset(self.ctx.scratch / "c03.rtdc")
        cfg = ds.config["filtering"]
        for key in list(cfg.keys()):
            if key in ("hierarchy parent", "polygon filters"):
                continue
            fresh.config["filtering"][key] = cfg[key]
        # (polygon filters are registered through the API: item assignment of a list that
        # contains the identifier 0 drops it - fintlist([0]) == [] - which is C11's business)
        for pid in cfg["polygon filters"]:
            fresh.polygon_filter_add(pid)
        fresh.filter.manual[:] = ds.filter.manual
        with warnings.catch_warnings():
            warnings.simplefilter("ignore")
            with ctx.sut("C03.apply_fresh"):
                fresh.apply_filter()
        ctx.checked()
        if not np.array_equal(np.array(fresh.filter.all), np.array(ds.filter.all)):
            bad = np.flatnonzero(np.array(fresh.filter.all) != np.array(ds.filter.all))[:6].tolist()
            ctx.violation("C03.fresh", f"a fresh dataset with the same final settings selects differently at events {bad}; settings: {self.settings_str()}",
                          sig={"prev": self.prev})
        ctx.log("o", "fresh", seeds.short_hash(np.array(fresh.filter.all)))


def run(trace, ctx):
    w = World(trace, ctx)
    while True:
        op = ctx.next_op(w.gen_op, max_ops=trace.get("max_ops", 20))
        if op is None:
            break
        w.execute(op)
    w.final_fresh_check()
    ctx.info["sample"] = {"knobs": trace["knobs"], "ops": (trace.get("ops") or [])[:10], "n_ops": len(trace.get("ops") or [])}
