"""C14 — basins are only followed when matching, acyclic and permitted.

World C with threads: up to 6 datasets (local .rtdc files, objects on simulated
HTTP hosts, stubbed S3 objects, DCOR resources served by a fake dcserv API)
refer to each other through generated basin definitions.  The root is opened
through the local or a network format; the caller's operations and dclab's
availability-checker threads are interleaved by the seeded scheduler while
environment actors change the network weather and delete files."""
import json
import os
import pathlib
import uuid as _uuid
import warnings

import numpy as np

from dst import seeds, simnet, sched as schedmod

NAME = "C14"
PROPERTY = "C14"
LEVEL = "exploration"
TIMEOUT_IS_VIOLATION = True
RULE = ("one evaluation = one seeded scenario: a directed graph of basin references over 1..6 datasets (chains, diamonds, "
        "self-references, k-cycles; edges of type file/http/s3/dcor, unmapped or mapped, with or without feature lists, absolute/"
        "relative/dangling locations; run identifiers equal / extended / unrelated / missing) is written to local files and onto "
        "simulated hosts; the root is opened through RTDC_HDF5, RTDC_HTTP, RTDC_S3 (stubbed object handle) or RTDC_DCOR and a seeded "
        "history of listing, containment, read, close/reopen operations runs while the scheduler interleaves dclab's availability "
        "threads (inline / real thread with yields at network events, lock operations and sampled source lines / never) and, in the "
        "weather class, hosts refuse, lose DNS, time out, return 403/404, heal, and local origins are deleted. Every value obtained "
        "identifies its provider (unique values per dataset, feature and event). non-trivial = graph with >=1 edge, >=1 read or "
        "listing judged; distinct = distinct event-log digests")
STATE_MEASURE = "distinct (graph shape class, root format, fault kind, call site in {open, listing, read, close}) tuples; schedule choices are part of the digest"
PROBES = ["read_repeated_after_transient_hdf5_fault", "cycle_in_graph", "self_reference", "mapped_edge_followed", "nonmatching_edge_present", "remote_edge_from_remote_root",
          "file_edge_under_remote_root", "checker_ran_as_thread", "checker_never_ran", "scheduler_switched", "line_preemption",
          "host_down_during_listing", "host_healed_then_offered", "origin_deleted", "dcor_root", "s3_root", "http_root",
          "value_from_depth_2", "keyerror_for_unavailable", "missing_identifier", "remote_typed_local_path", "flaky_host", "path_component_too_long",
          "availability_verified_before_weather_change"]
COMPONENTS = {
    "real": ["dclab core basins machinery (basins_retrieve, features_basin, _get_basin_feature_data, identifier verification, cycle cut)",
             "feat_basin.Basin/BasinProxy, HDF5Basin, HTTPBasin, S3Basin, DCORBasin, RTDC_HTTP/RTDC_S3/RTDC_DCOR/APIHandler, HTTPFile",
             "real threads for the availability checkers (only the scheduling decision is simulated)", "h5py reading through file objects", "requests session machinery"],
    "stub": ["thread scheduling decision (baton passing, seeded)", "requests transport adapter + in-process object server", "fake dcserv JSON API",
             "socket module seen by dclab", "boto3 object handle", "wall clock"],
}
ASSUMPTIONS = [
    "the reference reachability model encodes the statement (permitted, identifier-matching, acyclic) - not the implementation's key bookkeeping",
    "remote basins are not contacted at listing time (upstream's own tests assert that a non-matching remote basin is listed while reading raises KeyError): "
    "the listing-soundness oracle is applied to graphs of file basins only; data of a non-matching or forbidden dataset must never be returned for any type",
    "features declared in a basin definition but absent in the origin may be listed and must then fail with KeyError",
    "S3 is stubbed at the boto3 object handle; botocore's HTTP stack is not simulated",
]

FEATS = [f"userdef{i}" for i in range(10)]
FMT_OF_KIND = {"file": "hdf5", "http": "http", "s3": "s3", "dcor": "dcor", "remote_hdf5": "hdf5"}
TRACE_FILES = ("rtdc_dataset/feat_basin.py", "rtdc_dataset/core.py", "rtdc_dataset/fmt_http.py", "rtdc_dataset/fmt_s3.py",
               "rtdc_dataset/fmt_dcor/basin.py", "rtdc_dataset/fmt_dcor/api.py", "rtdc_dataset/fmt_hdf5/basin.py")


def plan(tier):
    if tier == "quick":
        return {"runs": 1800, "budget_s": 45, "run_timeout_s": 90, "det_pairs": 3}
    return {"runs": 60000, "budget_s": 780, "run_timeout_s": 180, "det_pairs": 3}


def node_uuid(i):
    return str(_uuid.UUID(int=(0xabcdef0000000000000000000000 + i * 7919) % (1 << 128)))


def encode(node, fidx, n):
    return (node + 1) * 1e4 + fidx * 1e2 + np.arange(n) * 0.5


def decode(v):
    node = int(v // 1e4) - 1
    fidx = int((v % 1e4) // 1e2)
    e = (v % 1e2) / 0.5
    return node, fidx, e


def make_trace(seed, tier, idx=None):
    r = seeds.rng(seed, "plan")
    N = r.choice([1, 2, 2, 3, 3, 4, 5, 6])
    n_ev = r.choice([4, 9, 17])
    klass = "weather" if r.random() < 0.4 else "faultfree"
    local_only = r.random() < 0.35
    nodes = []
    base = "run-" + "%04x" % r.randrange(1 << 16)
    for i in range(N):
        x = r.random()
        rid = base if x < 0.6 else (base + "-x%d" % i if x < 0.8 else ("other-%d" % i if x < 0.93 else None))
        nodes.append({"rid": rid, "feats": sorted(r.sample(FEATS, r.randint(1, 4)))})
    edges = []
    shape = r.choice(["chain", "chain", "diamond", "cycle", "self", "random", "random"])
    pairs = []
    if N == 1:
        pairs = [(0, 0)] if r.random() < 0.6 else []
    elif shape == "chain":
        pairs = [(i, i + 1) for i in range(N - 1)]
    elif shape == "diamond" and N >= 4:
        pairs = [(0, 1), (0, 2), (1, 3), (2, 3)] + [(3, j) for j in range(4, N)]
    elif shape == "cycle":
        k = r.randint(2, N)
        pairs = [(i, (i + 1) % k) for i in range(k)] + [(0, j) for j in range(k, N)]
    elif shape == "self":
        pairs = [(0, 0)] + [(i, i + 1) for i in range(N - 1)]
    else:
        for _ in range(r.randint(1, min(10, 2 * N))):
            pairs.append((r.randrange(N), r.randrange(N)))
    for ei, (a, b) in enumerate(pairs[:10]):
        kind = "file" if local_only else r.choice(["file", "file", "http", "http", "s3", "dcor", "remote_hdf5"])
        e = {"src": a, "dst": b, "kind": kind, "name": f"e{ei}",
             "map": r.choice([None, None, None, "subset", "perm", "repeat"]), "mseed": r.randrange(1 << 20),
             "feats": r.choice([None, None, "all_dst", "some"]), "loc": r.choice(["abs", "abs", "rel", "dangling", "toolong"]) if kind == "file" else "url",
             "host": r.randrange(2)}
        if e["feats"] == "some":
            e["feats"] = sorted(r.sample(FEATS, r.randint(1, 3)))
        elif e["feats"] == "all_dst":
            e["feats"] = list(nodes[b]["feats"])
        edges.append(e)
        # mapped basins are meant for referrers whose identifier extends the origin's
        if e["map"] and r.random() < 0.6 and nodes[b]["rid"] and a != b:
            nodes[a]["rid"] = nodes[b]["rid"] + "-m%d" % a
    root_fmt = "hdf5" if local_only else r.choice(["hdf5", "hdf5", "http", "http", "s3", "dcor"])
    scenario = None
    if r.random() < 0.07:
        # targeted: the root declares features of an origin that is NOT the same measurement, reachable only over a
        # connection that comes and goes from the start (availability and identity checks race with the weather)
        scenario = "flaky_mismatch"
        klass = "weather"
        if N < 2:
            nodes.append({"rid": None, "feats": sorted(r.sample(FEATS, r.randint(1, 4)))})
        nodes[1]["rid"] = r.choice(["other-1", "other-1", None, (nodes[0]["rid"] or base) + "-x1"])
        if nodes[0]["rid"] is None:
            nodes[0]["rid"] = base
        edges = [e for e in edges if not (e["src"] == 0 and e["dst"] == 1)]
        edges.insert(0, {"src": 0, "dst": 1, "kind": r.choice(["http", "http", "s3", "dcor"]), "name": "e_fm", "map": None, "mseed": 0,
                         "feats": sorted(r.sample(nodes[1]["feats"], r.randint(1, len(nodes[1]["feats"])))), "loc": "url", "host": r.randrange(2)})
        root_fmt = r.choice(["hdf5", "hdf5", "hdf5", root_fmt])
    return {"knobs": {"n": n_ev, "klass": klass, "root": 0, "root_fmt": root_fmt, "scenario": scenario,
                      "checker": r.choice(["inline", "thread", "thread", "never", "mixed"]),
                      "trace_rate": r.choice([0.0, 0.0, 0.05, 0.3]), "fault_rate": r.choice([0.0, 0.1]) if klass == "weather" else 0.0,
                      # a host whose connection comes and goes from the very first open on
                      "init_flaky": ({"host": r.choice([0, 1, 2, 3, "all", "all", "all"]), "fseed": r.randrange(1, 1 << 20)}
                                     if klass == "weather" and r.random() < 0.4 else None)
                      if scenario is None else {"host": "all", "fseed": r.randrange(1, 1 << 20)}},
            "graph": {"nodes": nodes, "edges": edges}, "max_ops": r.choice([6, 12, 24]), "ops": None}


class World:
    def __init__(self, trace, ctx):
        import dclab
        self.ctx = ctx
        self.k = trace["knobs"]
        self.g = trace["graph"]
        self.n = self.k["n"]
        self.nodes = self.g["nodes"]
        self.edges = [e for e in self.g["edges"] if e["src"] < len(self.nodes) and e["dst"] < len(self.nodes)]
        self.dir = ctx.scratch / "data"
        self.dir.mkdir()
        self.net = simnet.SimNet(ctx).install()
        self.hosts = ["h0.sim.test", "h1.sim.test", "s3.sim.test", "dcor.sim.test"]
        for h in self.hosts:
            self.net.host(h)
        self.maps = {}
        self.sched = schedmod.Sched(ctx, ctx.rng("sched"), trace_files=TRACE_FILES, trace_rate=self.k["trace_rate"])
        self.net.on_yield = self.sched.yield_point
        schedmod.install_basin_threads(self.sched, mode=self.k["checker"])
        self.local_opens = []
        self.install_open_recorder()
        from dst import faultfs
        self.rseam = faultfs.ReadFaultSeam().install()
        self.deleted = set()
        self.ds = None
        self.ds_fmt = None
        self.faulted = False
        self.write_nodes()
        if self.k.get("init_flaky"):
            fl = self.k["init_flaky"]
            for hi in (range(4) if fl["host"] == "all" else [fl["host"]]):
                self.do_weather({"k": "weather", "host": hi, "state": "flaky", "node": 0, "fseed": fl["fseed"] + hi})

    # ---------------- construction ----------------
    def path(self, i):
        return self.dir / f"n{i}.rtdc"

    def url(self, kind, j, host=0):
        if kind == "http":
            return f"http://h{host}.sim.test/n{j}.rtdc"
        if kind == "s3":
            return f"http://s3.sim.test:80/bucket/n{j}.rtdc"
        return f"http://dcor.sim.test/api/3/action/dcserv?id={node_uuid(j)}"

    def edge_map(self, e):
        if e["map"] is None:
            return None
        key = e["name"]
        if key not in self.maps:
            rs = seeds.np_rng(e["mseed"], "map")
            n = self.n
            if e["map"] == "subset":
                m = np.sort(rs.choice(n, size=n, replace=True))
            elif e["map"] == "perm":
                m = rs.permutation(n)
            else:
                m = rs.integers(0, n, size=n)
            self.maps[key] = m.astype(np.uint64)
        return self.maps[key]

    def write_nodes(self):
        from dclab.rtdc_dataset.writer import RTDCWriter
        metas = {}
        for i, nd in enumerate(self.nodes):
            meta = {"setup": {"software version": "ShapeIn 2.2.2.4"}, "experiment": {"sample": f"node {i}", "run index": i + 1}}
            if nd["rid"] is not None:
                meta["experiment"].update({"run identifier": nd["rid"], "date": "2020-02-02", "time": "10:00:%02d" % i})
                meta["setup"]["identifier"] = "ZMDD-AcC-%06d-000000" % i
            else:
                self.ctx.probe("missing_identifier")
            metas[i] = meta
            with RTDCWriter(self.path(i), mode="reset") as hw:
                hw.store_metadata(meta)
                for f in nd["feats"]:
                    hw.store_feature(f, encode(i, FEATS.index(f), self.n))
                used_maps = 0
                for e in self.edges:
                    if e["src"] != i:
                        continue
                    m = self.edge_map(e)
                    if m is not None:
                        used_maps += 1
                        if used_maps > 9:
                            continue
                    if e["kind"] == "remote_hdf5":
                        # malformed on purpose: type "remote", but the local-file format with a local path as URL
                        loc = str(self.path(e["dst"]))
                        btype, bfmt = "remote", "hdf5"
                    elif e["kind"] == "file":
                        loc = {"abs": str(self.path(e["dst"])), "rel": f"n{e['dst']}.rtdc", "dangling": f"/nonexistent-c14/n{e['dst']}.rtdc",
                               "toolong": "/" + "x" * 300 + f"/n{e['dst']}.rtdc"}[e["loc"]]
                        btype, bfmt = "file", "hdf5"
                    else:
                        loc = self.url(e["kind"], e["dst"], e.get("host", 0))
                        btype, bfmt = "remote", e["kind"]
                    with warnings.catch_warnings():
                        warnings.simplefilter("ignore")
                        hw.store_basin(basin_name=e["name"], basin_type=btype, basin_format=bfmt, basin_locs=[loc],
                                       basin_feats=e["feats"], basin_map=m, verify=False)
        # serve every node on every host
        for i, nd in enumerate(self.nodes):
            blob = self.path(i).read_bytes()
            for h in ("h0.sim.test", "h1.sim.test"):
                self.net.hosts[h].objects[f"/n{i}.rtdc"] = blob
            self.net.hosts["s3.sim.test"].objects[f"/bucket/n{i}.rtdc"] = blob
            meta = json.loads(json.dumps(metas[i]))
            meta["experiment"]["event count"] = self.n
            self.net.hosts["dcor.sim.test"].dcor[node_uuid(i)] = {
                "valid": True, "metadata": meta, "size": self.n, "feature_list": [], "logs": {}, "tables": {},
                "basins": [{"name": "dcor-http", "type": "remote", "format": "http", "urls": [self.url("http", i, 0)],
                            "features": None, "mapping": "same", "description": "sim"}],
            }

    def install_open_recorder(self):
        import h5py
        rec = self.local_opens
        orig = h5py.File.__init__

        def init(s, name=None, *a, **k):
            if isinstance(name, (str, bytes, os.PathLike)):
                rec.append(os.path.basename(os.fspath(name)))
            return orig(s, name, *a, **k)
        h5py.File.__init__ = init

    # ---------------- reference model ----------------
    def rid_ok(self, holder_rid, basin_rid, mapped):
        if holder_rid is None:
            return True
        if basin_rid is None:
            return False
        return holder_rid.startswith(basin_rid) if mapped else holder_rid == basin_rid

    def providers(self, node, fmt, feat, depth=0, strict=False):
        """Acceptable (provider node, event map from `node`'s events to the provider's) for `feat`, following permitted,
        identifier-matching edges (cycles bounded by depth)."""
        out = []
        if feat in self.nodes[node]["feats"]:
            out.append((node, np.arange(self.n), depth))
        if depth >= 7:
            return out
        for e in self.edges:
            if e["src"] != node:
                continue
            if e["kind"] == "file" and (fmt != "hdf5" or e["loc"] in ("dangling", "toolong")):
                continue
            if e["kind"] == "remote_hdf5" and (fmt != "hdf5" or strict):
                # a malformed definition (type and format disagree): may be ignored altogether; following it as a
                # file basin is acceptable only where local basins are permitted
                continue
            if e["feats"] is not None and feat not in e["feats"]:
                continue
            m = self.edge_map(e)
            if not self.rid_ok(self.nodes[node]["rid"], self.nodes[e["dst"]]["rid"], m is not None):
                continue
            nfmt = FMT_OF_KIND[e["kind"]] if e["kind"] != "dcor" else "http"
            for (pn, pm, d) in self.providers(e["dst"], nfmt, feat, depth + 1, strict):
                mm = pm if m is None else pm[m.astype(int)]
                out.append((pn, mm, d))
        return out

    def listed_ok(self, node, fmt, depth=0):
        """Features that may legitimately be listed for `node` (pure file graphs)."""
        out = set(self.nodes[node]["feats"])
        if depth >= 7:
            return out
        for e in self.edges:
            if e["src"] != node or e["kind"] != "file" or fmt != "hdf5" or e["loc"] in ("dangling", "toolong"):
                continue
            m = self.edge_map(e)
            if not self.rid_ok(self.nodes[node]["rid"], self.nodes[e["dst"]]["rid"], m is not None):
                continue
            if e["feats"] is not None:
                out |= set(e["feats"])
            else:
                out |= self.listed_ok(e["dst"], "hdf5", depth + 1)
        return out

    def graph_class(self):
        es = self.edges
        if not es:
            return "no-edges"
        if any(e["src"] == e["dst"] for e in es):
            self.ctx.probe("self_reference")
        # cycle detection
        adj = {}
        for e in es:
            adj.setdefault(e["src"], set()).add(e["dst"])
        cyc = False
        for s in adj:
            seen, stack = set(), [s]
            while stack:
                x = stack.pop()
                for y in adj.get(x, ()):
                    if y == s:
                        cyc = True
                    if y not in seen:
                        seen.add(y)
                        stack.append(y)
        if cyc:
            self.ctx.probe("cycle_in_graph")
        return ("cyclic" if cyc else "acyclic") + f"-{len(self.nodes)}n{len(es)}e"

    # ---------------- generation ----------------
    def gen_op(self, r):
        if self.ds is None:
            return {"k": "open"}
        hist = getattr(self, "op_hist", [])
        if self.k.get("scenario") == "flaky_mismatch" and r.random() < 0.6:
            root = self.k["root"] % len(self.nodes)
            declared = sorted({f for e in self.edges if e["src"] == root and isinstance(e["feats"], list) for f in e["feats"]})
            if declared:
                return r.choice([{"k": "read", "feat": r.choice(declared), "how": "all", "i": 0}, {"k": "close"},
                                 {"k": "read", "feat": r.choice(declared), "how": "idx", "i": r.randrange(1 << 16)}])
        if self.k["klass"] == "weather" and not self.k.get("scenario") and hist[-1:] in (["open"], ["heal"]) and r.random() < 0.35:
            # (before anything was listed: afterwards the listing is cached and the window is closed)
            return {"k": "verify"}
        if self.k["klass"] == "weather" and hist[-1:] == ["verify"] and r.random() < 0.7:
            # the window between a verified availability and the first use of the basin
            root = self.k["root"] % len(self.nodes)
            used = sorted({{"http": e["host"], "s3": 2, "dcor": 3}.get(e["kind"], e["host"]) for e in self.edges
                           if e["src"] == root and e["kind"] in ("http", "s3", "dcor")})
            host = r.choice(used) if used and r.random() < 0.75 else r.randrange(4)
            dsts = sorted({e["dst"] for e in self.edges if e["src"] == root and e["kind"] in ("http", "s3", "dcor")})
            return {"k": "weather", "host": host, "state": r.choice(["refuse", "down", "dnsfail", "flaky", "404", "404", "403"]),
                    "node": r.choice(dsts) if dsts else r.randrange(6), "fseed": r.randrange(1 << 20)}
        if self.k["klass"] == "weather" and hist[-2:] == ["verify", "weather"] and r.random() < 0.7:
            return r.choice([{"k": "listing", "what": "features_basin"}, {"k": "contains", "feat": r.choice(FEATS)},
                             {"k": "read", "feat": r.choice(FEATS), "how": "all", "i": 0}])
        x = r.random()
        if self.k["klass"] == "weather" and x < 0.22:
            y = r.random()
            if y < 0.6:
                return {"k": "weather", "host": r.randrange(4), "state": r.choice(["refuse", "dnsfail", "down", "up", "up", "403", "404", "flaky", "flaky", "flaky"]), "node": r.randrange(6),
                        "fseed": r.choice([0, r.randrange(1, 1 << 20)])}
            if y < 0.75:
                # the availability of the root's basins gets verified (as the background checker would do) before the weather changes
                return {"k": "verify"}
            return {"k": "delete", "node": r.randrange(1, 6)}
        if x < 0.32:
            return {"k": "listing", "what": r.choice(["features_basin", "features", "features_innate"])}
        if x < 0.52:
            return {"k": "contains", "feat": r.choice(FEATS)}
        if x < 0.86:
            feat = r.choice(FEATS)
            root = self.k["root"] % len(self.nodes)
            declared = sorted({f for e in self.edges if e["src"] == root and isinstance(e["feats"], list) for f in e["feats"]})
            if declared and r.random() < 0.5:
                # what the root's basin definitions declare (whether or not the origin may be used)
                feat = r.choice(declared)
            op = {"k": "read", "feat": feat, "how": r.choice(["all", "idx", "slice"]), "i": r.randrange(1 << 16)}
            if r.random() < 0.3:
                # one read of an HDF5 object fails (OSError / interrupt) in a first attempt; the caller repeats the access
                op["fail_first"] = {"at": r.choice([0, 0, 0, 1, 1, 2, 3, 5, 8, 13, 21]), "kind": r.choice(["err", "err", "intr"]),
                                    "only": r.choice([None, "basinmap", "basinmap", "/events/", "ds."])}
            return op
        if x < 0.94:
            return {"k": "close"}
        return {"k": "heal"}

    # ---------------- execution ----------------
    def execute(self, op):
        self.sched.yield_point("op")
        self.net.fault_rng = self.ctx.rng("net")
        self.net.fault_rate = self.k["fault_rate"]
        self.op_hist = (getattr(self, "op_hist", []) + [op["k"]])[-3:]
        getattr(self, "do_" + op["k"])(op)

    def guarded(self, oracle, fn, allow=(), sig=None):
        """Run a public call; classify what escapes."""
        ctx = self.ctx
        sig = dict(sig or {}, root_fmt=self.k["root_fmt"], faulted=self.faulted)
        try:
            with warnings.catch_warnings():
                warnings.simplefilter("ignore")
                return True, fn()
        except allow as e:
            return False, e
        except schedmod.DeadlockError as e:
            ctx.violation("C14.termination.deadlock", f"scheduler deadlock during {oracle}: {e}", sig=sig)
        except schedmod.StepBudgetExceeded as e:
            ctx.violation("C14.termination.budget", f"{oracle} did not finish within the step budget: {e}", sig=sig)
        except RecursionError as e:
            ctx.violation("C14.termination.recursion", f"RecursionError escaped from {oracle}", sig=sig)
        except BaseException as e:
            import traceback
            if self.root_unreachable():
                # the dataset's own server is unreachable: failing with a network error is not a basin matter
                ctx.count("root_unreachable_exception")
                return False, e
            where = "?"
            for fs in reversed(traceback.extract_tb(e.__traceback__)):
                if "/dclab/" in fs.filename:
                    where = fs.filename.split("/dclab/", 1)[1] + ":" + fs.name
                    break
            sig.update({"exc": type(e).__name__, "where": where})
            ctx.violation(oracle, f"{type(e).__name__} escaped: {str(e)[:300]} (raised in {where})", sig=sig)

    def root_unreachable(self):
        hosts = {"http": ["h0.sim.test"], "s3": ["s3.sim.test"], "dcor": ["dcor.sim.test", "h0.sim.test"]}.get(self.ds_fmt or self.k["root_fmt"], [])
        root = self.k["root"] % len(self.nodes)
        for h in hosts:
            if self.net.host_state(h, peek=True) != "up":
                return True
            st = self.net.hosts[h].status
            if f"/n{root}.rtdc" in st or f"/bucket/n{root}.rtdc" in st:
                return True
        return False

    def do_open(self, op):
        import dclab
        import dclab.rtdc_dataset.fmt_http as fh
        import dclab.rtdc_dataset.fmt_s3 as fs3
        import dclab.rtdc_dataset.fmt_dcor as fd
        if self.ds is not None:
            return
        ctx = self.ctx
        fmt = self.k["root_fmt"]
        root = self.k["root"] % len(self.nodes)
        self.local_opens.clear()

        def opener():
            if fmt == "hdf5":
                return dclab.new_dataset(self.path(root))
            if fmt == "http":
                ctx.probe("http_root")
                return fh.RTDC_HTTP(self.url("http", root, 0))
            if fmt == "s3":
                ctx.probe("s3_root")
                return fs3.RTDC_S3(self.url("s3", root))
            ctx.probe("dcor_root")
            return fd.RTDC_DCOR(self.url("dcor", root))
        # opening the root itself may fail under bad weather: not judged (any exception), only termination is
        try:
            with warnings.catch_warnings():
                warnings.simplefilter("ignore")
                self.ds = opener()
        except (schedmod.DeadlockError, schedmod.StepBudgetExceeded) as e:
            ctx.violation("C14.termination.open", f"opening the root did not terminate: {e}", sig={"root_fmt": fmt})
        except BaseException as e:
            if not self.faulted and root not in self.deleted:
                ctx.violation("C14.open", f"opening the root through {fmt} failed without any fault: {type(e).__name__}: {str(e)[:200]}",
                              sig={"root_fmt": fmt, "exc": type(e).__name__})
            ctx.log("c", f"open {fmt} failed", type(e).__name__)
            return
        self.ds_fmt = fmt
        for e in self.edges:
            mapped = e["map"] is not None
            if not self.rid_ok(self.nodes[e["src"]]["rid"], self.nodes[e["dst"]]["rid"], mapped):
                ctx.probe("nonmatching_edge_present")
            if e["kind"] == "remote_hdf5":
                ctx.probe("remote_typed_local_path")
            if e.get("loc") == "toolong":
                ctx.probe("path_component_too_long")
            if e["src"] == root and fmt != "hdf5":
                ctx.probe("file_edge_under_remote_root" if e["kind"] == "file" else "remote_edge_from_remote_root")
        ctx.state_ops += 1
        ctx.state(self.graph_class(), fmt, "faulted" if self.faulted else "clean", "open")
        ctx.log("c", f"open {fmt}")

    def do_close(self, op):
        if self.ds is None:
            return
        ds, self.ds = self.ds, None
        self.guarded("C14.close", ds.close, sig={"site": "close"})
        self.check_isolation()
        self.ctx.log("c", "close")

    def check_isolation(self):
        ctx = self.ctx
        if self.ds_fmt in ("http", "s3", "dcor"):
            ctx.checked()
            local = [nme for nme in self.local_opens if nme.startswith("n") and nme.endswith(".rtdc")]
            if local:
                ctx.violation("C14.isolation", f"a dataset opened through '{self.ds_fmt}' opened local files {sorted(set(local))}",
                              sig={"root_fmt": self.ds_fmt})

    def do_listing(self, op):
        if self.ds is None:
            return
        ctx = self.ctx
        ds = self.ds
        ok, res = self.guarded("C14.listing.raises", lambda: list(getattr(ds, op["what"])), sig={"site": "listing", "what": op["what"]})
        ctx.checked()
        if not ok:
            return
        if any(self.net.host_state(h, peek=True) != "up" for h in self.hosts):
            ctx.probe("host_down_during_listing")
        self.judge_listing(set(res) & set(FEATS), op["what"])
        ctx.state(self.graph_class(), self.ds_fmt, "faulted" if self.faulted else "clean", "listing")
        ctx.log("c", f"listing {op['what']}", seeds.short_hash(sorted(set(res) & set(FEATS))))
        self.check_isolation()

    def judge_listing(self, offered, what):
        ctx = self.ctx
        root = self.k["root"] % len(self.nodes)
        pure_file = all(e["kind"] == "file" for e in self.edges)
        if pure_file and self.ds_fmt == "hdf5" and what != "features_innate":
            ok = self.listed_ok(root, "hdf5")
            extra = offered - ok
            ctx.checked()
            if extra:
                ctx.violation("C14.offered.unmatched", f"features {sorted(extra)} are offered although no permitted, identifier-matching basin "
                                                       f"declares or holds them (root rid {self.nodes[root]['rid']!r})",
                              sig={"what": what})
        if what == "features_innate":
            ctx.checked()
            own = set(self.nodes[root]["feats"]) if self.ds_fmt != "dcor" else set()
            if self.ds_fmt != "dcor" and offered != own:
                ctx.violation("C14.innate", f"features_innate lists {sorted(offered)}, the root stores {sorted(own)}", sig={})

    def do_verify(self, op):
        if self.ds is None:
            return
        ds = self.ds

        def verify():
            return [bool(bn.is_available()) for bn in ds.basins]
        ok, res = self.guarded("C14.listing.raises", verify, sig={"site": "is_available"})
        if ok and any(res):
            self.ctx.probe("availability_verified_before_weather_change")
        self.ctx.log("c", "verify", res if ok else "exc")

    def do_contains(self, op):
        if self.ds is None:
            return
        ctx = self.ctx
        f = op["feat"]
        ds = self.ds
        ok, res = self.guarded("C14.listing.raises", lambda: f in ds, sig={"site": "contains"})
        ctx.checked()
        if ok and res:
            self.judge_listing({f}, "contains")
        ctx.log("c", f"contains {f}", res if ok else "exc")
        self.check_isolation()

    def do_read(self, op):
        if self.ds is None:
            return
        ctx = self.ctx
        f = op["feat"]
        ds = self.ds
        n = self.n
        i = op["i"] % n
        sel = {"all": slice(None), "idx": i, "slice": slice(i, i + 3)}[op["how"]]

        def rd():
            return np.atleast_1d(np.asarray(ds[f][sel], dtype=float))
        fault_fired = False
        ff = op.get("fail_first")
        seam = getattr(self, "rseam", None)
        if ff and seam is not None:
            seam.arm(ff["at"], ff["kind"], only=ff.get("only"))
            first_exc = None
            try:
                with warnings.catch_warnings():
                    warnings.simplefilter("ignore")
                    rd()
            except (schedmod.DeadlockError, schedmod.StepBudgetExceeded, RecursionError, SystemExit):
                seam.disarm()
                raise
            except BaseException as e_:  # noqa: B036 (KeyboardInterrupt is one of the injected kinds)
                if type(e_).__name__ == "StopRun":
                    seam.disarm()
                    raise
                first_exc = e_
            fault_fired = seam.disarm()
            ctx.log("c", f"first attempt {f} {op['how']}", f"fired={fault_fired} raised={type(first_exc).__name__ if first_exc is not None else None}")
            if fault_fired:
                ctx.fault("hdf5_read_" + ff["kind"])
                ctx.probe("read_repeated_after_transient_hdf5_fault")
                # this dataset object has seen a fault: it may have given up a basin for good; progress is demanded again from
                # a freshly opened root (heal), as after network faults
                self.faulted = True
        ok, res = self.guarded("C14.read.raises", rd, allow=(KeyError,) if not fault_fired else (KeyError, OSError), sig={"site": "read"})
        ctx.checked()
        ctx.state_ops += 1
        root = self.k["root"] % len(self.nodes)
        root_fmt = self.ds_fmt if self.ds_fmt != "dcor" else "dcor"
        provs = self.providers_root(root, f)
        ctx.state(self.graph_class(), self.ds_fmt, "faulted" if self.faulted else "clean", "read")
        if not ok:
            ctx.probe("keyerror_for_unavailable")
            # bounded liveness in the fault-free class: an acceptable provider in an acyclic, all-local-or-up world must be reachable
            strict_provs = self.providers(root, self.ds_fmt if self.ds_fmt != "dcor" else "http", f, strict=True)
            if not self.faulted and not fault_fired and strict_provs and not self.cyclic() and not self.deleted and not self.has_missing_rid():
                ctx.violation("C14.liveness", f"feature {f} has a permitted, matching provider (dataset {provs[0][0]}) but reading raises KeyError",
                              sig={"root_fmt": self.ds_fmt})
            ctx.log("c", f"read {f} {op['how']}", "KeyError")
            self.check_isolation()
            return
        idxs = np.arange(n)[sel] if op["how"] != "idx" else np.array([i])
        vals = res
        good = False
        detail = ""
        for (pn, pm, depth) in provs:
            exp = encode(pn, FEATS.index(f), n)[pm.astype(int)][idxs]
            if exp.shape == vals.shape and np.array_equal(exp, vals):
                good = True
                if depth >= 2:
                    ctx.probe("value_from_depth_2")
                if not np.array_equal(pm, np.arange(n)):
                    ctx.probe("mapped_edge_followed")
                break
        if not good:
            dn, dfi, de = decode(float(vals[0])) if len(vals) else (-1, -1, -1)
            why = "no permitted, identifier-matching provider exists" if not provs else f"acceptable providers are datasets {sorted({p[0] for p in provs})}"
            ctx.violation("C14.identity", f"reading {f} ({op['how']}) through root {root} opened as {self.ds_fmt} returned data of dataset {dn} "
                                          f"(feature code {dfi}, event {de}); {why}; root rid {self.nodes[root]['rid']!r}, "
                                          f"that dataset's rid {self.nodes[dn]['rid'] if 0 <= dn < len(self.nodes) else '?'!r}",
                          sig={"root_fmt": self.ds_fmt, "no_provider": not provs})
        ctx.log("c", f"read {f} {op['how']}", seeds.short_hash(vals))
        self.check_isolation()

    def providers_root(self, root, f):
        if self.ds_fmt == "dcor":
            # the DCOR resource itself holds no data: its (unmapped, same identifier) HTTP basin is the root file
            return self.providers(root, "http", f)
        return self.providers(root, self.ds_fmt, f)

    def cyclic(self):
        return self.graph_class().startswith("cyclic")

    def has_missing_rid(self):
        return any(nd["rid"] is None for nd in self.nodes)

    def do_weather(self, op):
        h = self.hosts[op["host"] % 4]
        st = op["state"]
        host = self.net.hosts[h]
        if st in ("403", "404"):
            j = op["node"] % len(self.nodes)
            for p in (f"/n{j}.rtdc", f"/bucket/n{j}.rtdc"):
                if p in host.objects:
                    host.status[p] = int(st)
            self.ctx.fault("http_" + st)
        else:
            host.state = st
            host.flaky_seed, host.flaky_count = op.get("fseed", 0), 0
            if st != "up":
                self.ctx.fault("host_" + st)
        if st != "up":
            self.faulted = True
        if st == "flaky":
            self.ctx.probe("flaky_host")
        self.ctx.log("env", f"weather {h} {st}")

    def do_delete(self, op):
        j = op["node"] % len(self.nodes)
        root = self.k["root"] % len(self.nodes)
        if j == root or j in self.deleted:
            return
        p = self.path(j)
        if p.exists():
            p.unlink()
            self.deleted.add(j)
            self.faulted = True
            self.ctx.probe("origin_deleted")
            self.ctx.fault("origin_deleted")
            self.ctx.log("env", f"delete n{j}")

    def do_heal(self, op):
        for h in self.hosts:
            self.net.hosts[h].state = "up"
            self.net.hosts[h].status.clear()
        self.ctx.log("env", "heal")
        # after the last fault a freshly opened root must offer what is legitimately reachable (bounded liveness)
        if self.ds is not None:
            self.do_close({})
        was_faulted = self.faulted
        if not self.deleted:
            self.faulted = False
        self.do_open({})
        if self.ds is not None and was_faulted:
            self.ctx.probe("host_healed_then_offered")


def run(trace, ctx):
    w = World(trace, ctx)
    try:
        while True:
            op = ctx.next_op(w.gen_op, max_ops=trace.get("max_ops", 12))
            if op is None:
                break
            w.execute(op)
        if w.ds is not None:
            w.do_close({})
    finally:
        if w.sched.switches:
            ctx.probe("scheduler_switched")
        if ctx.counters.get("checker_thread"):
            ctx.probe("checker_ran_as_thread")
        if ctx.counters.get("checker_never"):
            ctx.probe("checker_never_ran")
        if w.k["trace_rate"] > 0 and w.sched.switches:
            ctx.probe("line_preemption")
        w.sched.finish()
    g = trace["graph"]
    ctx.info["sample"] = {"knobs": trace["knobs"], "nodes": g["nodes"], "edges": [{k: v for k, v in e.items() if k != "mseed"} for e in g["edges"]],
                          "ops": (trace.get("ops") or [])[:8], "requests": w.net.n_requests, "switches": w.sched.switches}


def simplify(trace):
    g = trace["graph"]
    for i in range(len(g["edges"])):
        t = dict(trace)
        t["graph"] = {"nodes": g["nodes"], "edges": g["edges"][:i] + g["edges"][i + 1:]}
        yield t
    if trace["knobs"]["trace_rate"] > 0:
        t = dict(trace)
        t["knobs"] = dict(trace["knobs"], trace_rate=0.0)
        yield t
    if trace["knobs"]["checker"] != "inline":
        t = dict(trace)
        t["knobs"] = dict(trace["knobs"], checker="inline")
        yield t
