"""C17 — cached computations are indistinguishable from fresh ones.

World B: one caller actor issues seeded call histories over the memoised
functions with arguments from a pool built to collide; two environment actors
interfere: a *mutator* that writes into returned arrays and a *file modifier*
that edits hashed files and stamps their mtimes from the virtual clock."""
import hashlib
import os
import contextlib
import warnings

import numpy as np

from dst import gen, seeds

NAME = "C17"
PROPERTY = "C17"
LEVEL = "exploration"
RULE = ("one evaluation = one seeded call history (<= 120 calls, cache capacity knob 2..100 so that eviction happens) over "
        "kde_histogram/kde_gauss/kde_multivariate, downsample_grid, hashfile, LazyContourList (max_events knob 1..5) and the "
        "cached feature arrays of file datasets, hierarchy children and mapped-basin proxies, with arguments drawn from a pool of "
        "adversarially similar members (same bytes with different dtype or length, strided vs contiguous, positional vs keyword), "
        "interleaved with in-place modification of returned arrays and with file modifications stamped from the virtual clock; "
        "every result must equal a fresh computation with the same arguments (the same call with the process-global cache swapped "
        "out), dataset-level reads must equal the generator's data whatever was written into earlier results. "
        "non-trivial = >=2 calls and >=1 comparison; distinct = distinct event-log digests")
STATE_MEASURE = "distinct (function, collision class of the argument pair, cache occupancy >= capacity?, evicted-then-recalled?) tuples"
PROBES = ["dataset_read_repeated_after_transient_fault", "same_bytes_other_dtype", "same_bytes_other_length", "strided_argument", "keyword_vs_positional", "cache_full_eviction",
          "evicted_then_recalled", "result_mutated", "result_readonly", "file_modified_same_size", "file_modified_other_size",
          "contour_evicted_recomputed", "child_scalar_read", "basin_proxy_read", "h5_scalar_read", "interleaved_functions", "layout_or_shape_variant_2d", "first_access_with_dtype",
          "refilter_same_count", "grandchild_read_after_refilter", "tuple_argument",
          "contour_of_invalid_mask_requested", "file_replaced_keeping_mtime",
          "decoy_contour_list_with_same_first_mask", "decoy_dataset_with_same_first_feature", "summary_read"]
COMPONENTS = {"real": ["dclab.cached.Cache", "dclab.kde_methods (kde_histogram, kde_gauss, kde_multivariate)", "dclab.downsampling.downsample_grid (compiled)",
                       "dclab.util.hashfile / file_monitoring_lru_cache", "dclab.features.contour.LazyContourList",
                       "H5ScalarEvent / ChildScalar / BasinProxyFeature caches", "real files and os.stat on tmpfs"],
              "stub": ["file mtimes (set from the virtual clock by the file-modifier actor)", "wall clock"]}
ASSUMPTIONS = [
    "an edit that changes neither size nor mtime of a hashed file is outside the environment model (the cache is keyed on size and mtime by design); the file modifier always advances the virtual clock before stamping",
    "a fresh computation = the same call with the process-global cache dictionary swapped for an empty one",
    "if the fresh computation raises, the cached route must raise the same exception type",
]


def plan(tier):
    if tier == "quick":
        return {"runs": 2400, "budget_s": 45, "run_timeout_s": 180, "det_pairs": 3}
    return {"runs": 200000, "budget_s": 780, "run_timeout_s": 240, "det_pairs": 3}


def make_trace(seed, tier):
    r = seeds.rng(seed, "plan")
    return {"knobs": {"max_size": r.choice([2, 3, 5, 8, 100]), "max_events": r.choice([1, 2, 3, 5]), "n": r.choice([8, 20, 40]),
                      "world": r.choice(["memo", "memo", "memo", "files", "dataset", "mixed"]), "bad_mask": r.random() < 0.35,
                      "decoy": r.random() < 0.4, "dict_root": r.random() < 0.4},
            "max_ops": r.choice([12, 40, 80, 120]), "ops": None}


def _memo2d_raw(m, scale=1.0):
    """Row sums of a 2-D array (memoised with dclab's public Cache decorator by World)."""
    return np.asarray(m).sum(axis=1) * scale


def build_pool2d(seed):
    """2-D arguments that differ only in memory layout / shape: m, m.T, Fortran-ordered copies, reshaped views"""
    rs = seeds.np_rng(seed, "pool2d")
    m = rs.uniform(0, 10, size=(4, 4))
    r = rs.uniform(0, 10, size=(3, 5))
    return [("c", m), ("c.T", m.T), ("f(c.T)", np.asfortranarray(m.T)), ("f(c)", np.asfortranarray(m)), ("copy", m.copy()),
            ("r", r), ("r.reshape", r.reshape(5, 3)), ("r.T", r.T)]


def build_pool(seed, n):
    """argument pool: list of (label, x, y) with members that collide bytewise"""
    rs = seeds.np_rng(seed, "pool")
    pool = []
    x0 = rs.uniform(1.0, 100.0, size=n)
    y0 = rs.uniform(0.01, 0.5, size=n)
    pool.append(("base", x0, y0))
    pool.append(("copy", x0.copy(), y0.copy()))
    pool.append(("other", rs.uniform(1.0, 100.0, size=n), rs.uniform(0.01, 0.5, size=n)))
    # same bytes, different dtype
    pool.append(("int_view", x0.view(np.int64), y0.view(np.int64)))
    # same bytes, different dtype and length (2n float32 values)
    pool.append(("f32_view", x0.view(np.float32), y0.view(np.float32)))
    # integer data and the float64 view of the same bytes
    xi = rs.integers(1, 1000, size=n).astype(np.int64)
    yi = rs.integers(1, 1000, size=n).astype(np.int64)
    pool.append(("ints", xi, yi))
    pool.append(("ints_as_f8", xi.view(np.float64), yi.view(np.float64)))
    # strided views with the same values as base
    bx = np.empty(2 * n)
    by = np.empty(2 * n)
    bx[::2], by[::2] = x0, y0
    bx[1::2], by[1::2] = rs.uniform(1, 100, size=n), rs.uniform(0.01, 0.5, size=n)
    pool.append(("strided", bx[::2], by[::2]))
    # with nan/inf
    xn, yn = x0.copy(), y0.copy()
    xn[rs.integers(0, n)] = np.nan
    yn[rs.integers(0, n)] = np.inf
    pool.append(("nan", xn, yn))
    # float32 values (same numbers, other dtype)
    pool.append(("as_f32", x0.astype(np.float32), y0.astype(np.float32)))
    return pool


class World:
    def __init__(self, trace, ctx):
        import dclab
        from dclab import cached
        self.ctx = ctx
        k = trace["knobs"]
        self.k = k
        cached.MAX_SIZE = k["max_size"]
        self.pool = build_pool(ctx.seed, k["n"])
        self.pool2d = build_pool2d(ctx.seed)
        self.memo2d = cached.Cache(_memo2d_raw)
        self.last_results = []       # arrays returned by the most recent calls (targets of the mutator)
        self.seen_keys = set()
        self.evicted_keys = set()
        self.last_fn = None
        # files for hashfile
        self.files = []
        rs = seeds.np_rng(ctx.seed, "files")
        for i in range(3):
            p = ctx.scratch / f"h{i}.bin"
            p.write_bytes(rs.integers(0, 256, size=int(rs.integers(10, 3000)), dtype=np.uint8).tobytes())
            self.stamp(p)
            self.files.append(p)
        # lazy contours
        from dclab.features.contour import LazyContourList
        self.masks = np.array([gen.blob_mask(rs, 12, 16) for _ in range(8)])
        if k.get("bad_mask"):
            # one event without any mask pixel: its contour computation raises, for the cached list as for a fresh call
            self.masks[5] = False
        if k.get("decoy"):
            # another mask stack handled earlier in the process: same first event, other events differ
            dm = np.array([self.masks[0]] + [gen.blob_mask(rs, 12, 16) for _ in range(7)])
            decoy = LazyContourList(dm, max_events=k["max_events"])
            for j in (1, 2, 3, 6, 7, 2):
                try:
                    decoy[j]
                except Exception:
                    pass
            self.decoy_lcl = decoy
            ctx.probe("decoy_contour_list_with_same_first_mask")
        self.lcl = LazyContourList(self.masks, max_events=k["max_events"])
        self.lcl_seen = []
        # datasets
        self.ds_objs = None

    def stamp(self, p):
        # the file modifier stamps mtimes from the virtual clock, one tick after the previous stamp
        self.ctx.clock.advance(1.0)
        ns = int(self.ctx.clock.now * 1e9)
        os.utime(p, ns=(ns, ns))

    def datasets(self):
        """file dataset, hierarchy child, mapped-basin referrer (built lazily)"""
        if self.ds_objs is None:
            import dclab
            from dclab.rtdc_dataset.writer import RTDCWriter
            n = 30
            rs = seeds.np_rng(self.ctx.seed, "ds")
            self.truth = {"deform": rs.uniform(0, 0.3, size=n), "area_um": rs.uniform(20, 200, size=n), "bright_avg": rs.uniform(50, 150, size=n)}
            po = self.ctx.scratch / "origin.rtdc"
            meta = {"setup": {"software version": "ShapeIn 2.2.2.4", "identifier": "ZMDD-AcC-000001-000000"},
                    "experiment": {"sample": "s", "run index": 1, "date": "2020-01-01", "time": "10:00:00", "run identifier": "run-c17"}}
            # (the files are written once per run: after an injected read fault dclab may still hold a handle of a basin's file
            #  that no close() of the referring dataset reaches, and HDF5 refuses to truncate an open file)
            first_time = not po.exists()
            if first_time:
                with RTDCWriter(po, mode="reset") as hw:
                    hw.store_metadata(meta)
                    for f, v in self.truth.items():
                        hw.store_feature(f, v)
            self.bmap = np.array(sorted(rs.choice(n, size=12, replace=False)), dtype=np.uint64)
            pr = self.ctx.scratch / "referrer.rtdc"
            m2 = {"setup": dict(meta["setup"]), "experiment": dict(meta["experiment"])}
            m2["experiment"]["run identifier"] = "run-c17-ab12"
            with (RTDCWriter(pr, mode="reset") if first_time else contextlib.nullcontext()) as hw:
              if first_time:
                hw.store_metadata(m2)
                hw.store_feature("deform", self.truth["deform"][self.bmap.astype(int)])
                hw.store_basin(basin_name="o", basin_type="file", basin_format="hdf5", basin_locs=[str(po)],
                               basin_feats=["area_um", "bright_avg"], basin_map=self.bmap, verify=False)
            self.sel = rs.random(n) < 0.6
            if not self.sel.any():
                self.sel[0] = True
            if self.k.get("dict_root"):
                # in-memory root; before it, a look-alike (same alphabetically first feature, other features differ) was
                # filtered the same way and its child read
                if self.k.get("decoy"):
                    dd = {f: (v.copy() if f == "area_um" else v[::-1] + 1.0) for f, v in self.truth.items()}
                    d0 = dclab.new_dataset(dd)
                    d0.filter.manual[:] = self.sel
                    d0.apply_filter()
                    c0 = dclab.new_dataset(d0)
                    g0 = dclab.new_dataset(c0)
                    for f in self.truth:
                        for o in (c0, g0):
                            o[f].min(), o[f].mean(), np.asarray(o[f][:])
                    self.decoy_ds = (d0, c0, g0)
                    self.ctx.probe("decoy_dataset_with_same_first_feature")
                ds = dclab.new_dataset({f: v.copy() for f, v in self.truth.items()})
            else:
                ds = dclab.new_dataset(po)
            ds.filter.manual[:] = self.sel
            ds.apply_filter()
            child = dclab.new_dataset(ds)
            grand = dclab.new_dataset(child)
            ref = dclab.new_dataset(pr)
            self.ds_objs = {"file": ds, "child": child, "grandchild": grand, "basin": ref}
            self.refiltered = False
        return self.ds_objs

    # ---------------- generation ----------------
    def gen_op(self, r):
        w = self.k["world"]
        x = r.random()
        if self.last_results and x < 0.15:
            return {"k": "mutate", "dseed": r.randrange(1 << 20)}
        kinds = {"memo": ["kde", "kde", "dsgrid", "dsgrid", "lc", "memo2d", "memo2d"], "files": ["hf_call", "hf_call", "hf_modify", "kde"],
                 "dataset": ["ds_read", "ds_read", "ds_read", "lc"], "mixed": ["kde", "dsgrid", "hf_call", "hf_modify", "lc", "ds_read"]}[w]
        kind = r.choice(kinds)
        P = len(self.pool)
        if kind == "kde":
            a = r.randrange(P)
            op = {"k": "kde", "fn": r.choice(["histogram", "histogram", "gauss", "multivariate"]), "a": a,
                  "pos": r.choice([None, None, r.randrange(P)]), "kw": r.random() < 0.4,
                  # (explicit (x, y) pairs whose digits concatenate identically are distinct arguments)
                  "bins": r.choice([None, None, 5, 11, [10, 110], [101, 10], [12, 34], [123, 4]]),
                  "bw": r.choice([None, None, None, [1.0, 12.0], [1.01, 2.0]])}
            return op
        if kind == "memo2d":
            return {"k": "memo2d", "a": r.randrange(8), "kw": r.random() < 0.3, "scale": r.choice([1.0, 1.0, 2.0])}
        if kind == "dsgrid":
            return {"k": "dsgrid", "a": r.randrange(P), "samples": r.choice([0, 3, 5, 10, 1000]), "ri": r.random() < 0.4,
                    "idx": r.random() < 0.5, "kw": r.random() < 0.4}
        if kind == "lc":
            return {"k": "lc", "i": r.choice([r.randrange(8), r.randrange(8), [0, 8, 3]])}
        if kind == "hf_call":
            return {"k": "hf_call", "f": r.randrange(3), "blocksize": r.choice([65536, 64, 1000]), "count": r.choice([0, 0, 1, 3])}
        if kind == "hf_modify":
            return {"k": "hf_modify", "f": r.randrange(3), "how": r.choice(["same_size", "same_size", "grow", "shrink", "grow_keep_mtime", "shrink_keep_mtime"]), "dseed": r.randrange(1 << 20)}
        if w in ("dataset", "mixed") and self.ds_objs is not None and r.random() < 0.2:
            # the root selects other events (equally many / any); the hierarchy is refreshed from the youngest
            return {"k": "ds_refilter", "mode": r.choice(["swap", "swap", "random"]), "dseed": r.randrange(1 << 20)}
        op = {"k": "ds_read", "which": r.choice(["file", "child", "child", "grandchild", "grandchild", "basin"]), "feat": r.choice(["deform", "area_um", "bright_avg"]),
              "how": r.choice(["all", "all", "idx", "slice", "asarray", "asarray_f32", "asarray_int", "summary"]), "i": r.randrange(1 << 16),
              "fresh": r.random() < 0.3}
        if not self.k.get("dict_root") and r.random() < 0.2:
            # freshly opened datasets; a first attempt of the access fails at a read of feature data in a file (OSError /
            # interrupt), then the access is repeated on the same objects
            op["fresh"] = True
            op["fail_first"] = {"at": r.choice([0, 0, 0, 1, 1, 2]), "kind": r.choice(["err", "err", "intr"]), "only": r.choice(["/events/", "/events/", "ds.", None])}
        return op

    # ---------------- execution ----------------
    def execute(self, op):
        getattr(self, "do_" + op["k"])(op)

    def fresh_call(self, fn, args, kwargs):
        """The same call with the process-global cache swapped for an empty one."""
        from dclab.cached import Cache
        saved = (Cache._cache, Cache._keys)
        Cache._cache, Cache._keys = {}, []
        try:
            with warnings.catch_warnings():
                warnings.simplefilter("ignore")
                try:
                    return ("ok", fn(*args, **kwargs))
                except Exception as e:
                    return ("exc", type(e).__name__)
        finally:
            Cache._cache, Cache._keys = saved

    def cached_call(self, fn, args, kwargs):
        with warnings.catch_warnings():
            warnings.simplefilter("ignore")
            try:
                return ("ok", fn(*args, **kwargs))
            except Exception as e:
                return ("exc", type(e).__name__)

    @staticmethod
    def same(a, b):
        if a[0] != b[0]:
            return False
        if a[0] == "exc":
            return a[1] == b[1]
        ra, rb = a[1], b[1]
        if isinstance(ra, tuple):
            return isinstance(rb, tuple) and len(ra) == len(rb) and all(
                np.asarray(x).shape == np.asarray(y).shape and np.array_equal(np.asarray(x), np.asarray(y), equal_nan=np.asarray(x).dtype.kind == "f")
                for x, y in zip(ra, rb))
        ra, rb = np.asarray(ra), np.asarray(rb)
        return ra.shape == rb.shape and np.array_equal(ra, rb, equal_nan=ra.dtype.kind == "f")

    def note_call(self, fname, label, key):
        from dclab.cached import Cache, MAX_SIZE
        ctx = self.ctx
        full = len(Cache._keys) >= MAX_SIZE
        if full:
            ctx.probe("cache_full_eviction")
        recalled = key in self.evicted_keys
        if recalled:
            ctx.probe("evicted_then_recalled")
        if self.last_fn is not None and self.last_fn != fname:
            ctx.probe("interleaved_functions")
        self.last_fn = fname
        if label in ("int_view", "ints_as_f8"):
            ctx.probe("same_bytes_other_dtype")
        if label == "f32_view":
            ctx.probe("same_bytes_other_length")
        if label == "strided":
            ctx.probe("strided_argument")
        self.seen_keys.add(key)
        live = set()   # approximation: keys seen but beyond capacity count as evicted
        order = getattr(self, "_order", [])
        if key in order:
            order.remove(key)
        order.append(key)
        self._order = order
        self.evicted_keys = set(order[:-MAX_SIZE]) if len(order) > MAX_SIZE else set()
        ctx.state(fname, label, full, recalled)

    def do_kde(self, op):
        from dclab import kde_methods
        ctx = self.ctx
        fn = {"histogram": kde_methods.kde_histogram, "gauss": kde_methods.kde_gauss, "multivariate": kde_methods.kde_multivariate}[op["fn"]]
        label, x, y = self.pool[op["a"] % len(self.pool)]
        args, kwargs = [x, y], {}
        if op["pos"] is not None:
            _, px, py = self.pool[op["pos"] % len(self.pool)]
            if op["kw"]:
                kwargs.update(xout=px, yout=py)
                ctx.probe("keyword_vs_positional")
            else:
                args += [px, py]
        if op["fn"] == "histogram" and op.get("bins"):
            kwargs["bins"] = tuple(op["bins"]) if isinstance(op["bins"], list) else op["bins"]
            if isinstance(op["bins"], list):
                ctx.probe("tuple_argument")
        if op["fn"] == "multivariate" and op.get("bw"):
            kwargs["bw"] = tuple(op["bw"])
            ctx.probe("tuple_argument")
        if op["kw"] and op["pos"] is None:
            args, kwargs = [], dict(kwargs, events_x=x, events_y=y)
            ctx.probe("keyword_vs_positional")
        got = self.cached_call(fn, args, kwargs)
        exp = self.fresh_call(fn, args, kwargs)
        ctx.checked()
        ctx.state_ops += 1
        self.note_call("kde_" + op["fn"], label, ("kde", op["fn"], op["a"], op["pos"], op["kw"], str(op.get("bins")), str(op.get("bw"))))
        if not self.same(got, exp):
            ctx.violation("C17.memo.kde", f"kde_{op['fn']} with arguments '{label}' (pos={op['pos']}, kw={op['kw']}) returned a value that differs from a "
                                          f"fresh computation: {self.brief(got)} vs {self.brief(exp)}", sig={"fn": "kde", "label": label})
        if got[0] == "ok":
            self.last_results = [got[1]]
        ctx.log("c", f"kde_{op['fn']} {label} pos={op['pos']} kw={op['kw']}", self.brief(got))

    def do_dsgrid(self, op):
        from dclab import downsampling
        ctx = self.ctx
        label, a, b = self.pool[op["a"] % len(self.pool)]
        if op["kw"]:
            args, kwargs = [a, b], {"samples": op["samples"], "remove_invalid": op["ri"], "ret_idx": op["idx"]}
            ctx.probe("keyword_vs_positional")
        else:
            args, kwargs = [a, b, op["samples"], op["ri"], op["idx"]], {}
        got = self.cached_call(downsampling.downsample_grid, args, kwargs)
        exp = self.fresh_call(downsampling.downsample_grid, args, kwargs)
        ctx.checked()
        ctx.state_ops += 1
        self.note_call("downsample_grid", label, ("ds", op["a"], op["samples"], op["ri"], op["idx"], op["kw"]))
        if not self.same(got, exp):
            ctx.violation("C17.memo.downsample_grid", f"downsample_grid with arguments '{label}' samples={op['samples']} returned a value that differs "
                                                      f"from a fresh computation: {self.brief(got)} vs {self.brief(exp)}",
                          sig={"fn": "downsample_grid", "label": label, "mutated_before": bool(getattr(self, "mutated", False))})
        if got[0] == "ok":
            self.last_results = list(got[1]) if isinstance(got[1], tuple) else [got[1]]
        ctx.log("c", f"downsample_grid {label} {op['samples']} {op['ri']} {op['idx']}", self.brief(got))

    def do_memo2d(self, op):
        ctx = self.ctx
        label, m = self.pool2d[op["a"] % len(self.pool2d)]
        args, kwargs = ([m], {"scale": op["scale"]}) if op["kw"] else ([m, op["scale"]], {})
        got = self.cached_call(self.memo2d, args, kwargs)
        exp = self.fresh_call(self.memo2d, args, kwargs)
        ctx.checked()
        ctx.state_ops += 1
        self.note_call("memo2d", label, ("m2", op["a"], op["kw"], op["scale"]))
        if label != "c" and label != "r":
            ctx.probe("layout_or_shape_variant_2d")
        if not self.same(got, exp):
            ctx.violation("C17.memo.2d", f"a function memoised with dclab's Cache returned for argument '{label}' a value that differs from a fresh "
                                         f"computation: {self.brief(got)} vs {self.brief(exp)}", sig={"fn": "memo2d", "label": label})
        if got[0] == "ok":
            self.last_results = [got[1]]
        ctx.log("c", f"memo2d {label} {op['scale']}", self.brief(got))

    def do_lc(self, op):
        from dclab.features.contour import get_contour
        ctx = self.ctx
        i = op["i"]
        try:
            if isinstance(i, list):
                exp = [get_contour(self.masks[j]) for j in range(*slice(*i).indices(len(self.masks)))]
            else:
                exp = [get_contour(self.masks[i])]
            exp_exc = None
        except Exception as e:
            exp, exp_exc = None, type(e)
        if exp_exc is not None:
            # the fresh computation refuses this event: the list must refuse it as well (and stay usable afterwards)
            ctx.checked()
            ctx.probe("contour_of_invalid_mask_requested")
            try:
                self.lcl[slice(*i)] if isinstance(i, list) else self.lcl[i]
                ctx.violation("C17.contour", f"LazyContourList[{i}] returns a contour although a fresh computation raises {exp_exc.__name__}", sig={"what": "invalid"})
            except Exception:
                pass
            ctx.log("c", f"lc {i}", "refused")
            return
        with ctx.sut("C17.contour"):
            if isinstance(i, list):
                got = self.lcl[slice(*i)]
            else:
                got = [self.lcl[i]]
                if i in self.lcl_seen and i not in list(self.lcl.indices)[:-1]:
                    ctx.probe("contour_evicted_recomputed")
                self.lcl_seen.append(i)
        ctx.checked()
        ctx.state_ops += 1
        if len(got) != len(exp) or any(not np.array_equal(a, b) for a, b in zip(got, exp)):
            ctx.violation("C17.contour", f"LazyContourList[{i}] differs from a fresh contour computation", sig={})
        self.last_results = [g for g in got]
        ctx.log("c", f"lc {i}", seeds.short_hash(got))

    def do_hf_call(self, op):
        from dclab.util import hashfile
        ctx = self.ctx
        p = self.files[op["f"] % 3]
        with ctx.sut("C17.hashfile"):
            got = hashfile(p, blocksize=op["blocksize"], count=op["count"])
        data = p.read_bytes()
        bs, cnt = op["blocksize"], op["count"]
        h = hashlib.md5()
        blocks = [data[i:i + bs] for i in range(0, len(data), bs)]
        for ii, blk in enumerate(blocks):
            h.update(blk)
            if cnt and ii + 1 == cnt:
                break
        ctx.checked()
        ctx.state_ops += 1
        ctx.state("hashfile", "file", False, False)
        if got != h.hexdigest():
            ctx.violation("C17.hashfile", f"hashfile(h{op['f'] % 3}.bin, blocksize={bs}, count={cnt}) returned a stale or wrong hash", sig={})
        ctx.log("c", f"hashfile {op['f'] % 3} {bs} {cnt}", got[:8])

    def do_hf_modify(self, op):
        ctx = self.ctx
        p = self.files[op["f"] % 3]
        data = bytearray(p.read_bytes())
        rs = seeds.np_rng(op["dseed"], "mod")
        if op["how"] == "same_size" and len(data):
            j = int(rs.integers(0, min(len(data), 60)))
            data[j] = (data[j] + 1 + int(rs.integers(0, 200))) % 256
            ctx.probe("file_modified_same_size")
        elif op["how"].startswith("grow"):
            data += rs.integers(0, 256, size=int(rs.integers(1, 50)), dtype=np.uint8).tobytes()
            ctx.probe("file_modified_other_size")
        elif len(data) > 2:
            del data[-int(rs.integers(1, min(len(data) - 1, 30) + 1)):]
            ctx.probe("file_modified_other_size")
        old_ns = os.stat(p).st_mtime_ns
        if not hasattr(self, "hf_sizes"):
            self.hf_sizes = {}
        sizes = self.hf_sizes.setdefault(str(p), {"ns": old_ns, "sizes": set()})
        if sizes["ns"] != old_ns:
            sizes.update({"ns": old_ns, "sizes": set()})
        sizes["sizes"].add(os.stat(p).st_size)
        p.write_bytes(bytes(data))
        # (the cache key is (mtime, size): another content of a size already seen under this very mtime is out of its reach by
        #  design - such a replacement gets a new time stamp)
        if op["how"].endswith("_keep_mtime") and len(data) not in sizes["sizes"]:
            # replaced by a version of another size that carries the old time stamp (cp -p, rsync -t, archive extraction)
            os.utime(p, ns=(old_ns, old_ns))
            ctx.probe("file_replaced_keeping_mtime")
        else:
            self.stamp(p)
        ctx.fault("file_modified")
        ctx.log("env", f"modify h{op['f'] % 3} {op['how']}")

    def do_ds_read(self, op):
        ctx = self.ctx
        if op.get("fresh") and self.ds_objs is not None:
            # a freshly refreshed child / re-opened datasets: the next access is the first one
            for d in self.ds_objs.values():
                try:
                    d.close()
                except Exception:
                    pass
            self.ds_objs = None
        dss = self.datasets()
        which, f = op["which"], op["feat"]
        ds = dss[which]
        if which == "file":
            truth = self.truth[f]
            ctx.probe("h5_scalar_read")
        elif which in ("child", "grandchild"):
            truth = self.truth[f][self.sel]
            ctx.probe("child_scalar_read")
            if which == "grandchild" and getattr(self, "refiltered", False):
                ctx.probe("grandchild_read_after_refilter")
        else:
            truth = self.truth[f][self.bmap.astype(int)]
            if f != "deform":
                ctx.probe("basin_proxy_read")
        n = len(truth)
        i = op["i"] % n
        ff = op.get("fail_first")
        if ff:
            if getattr(self, "rseam", None) is None:
                from dst import faultfs
                self.rseam = faultfs.ReadFaultSeam().install()
            self.rseam.arm(ff["at"], ff["kind"], only=ff.get("only"))
            raised = None
            try:
                with warnings.catch_warnings():
                    warnings.simplefilter("ignore")
                    np.asarray(ds[f][:])
            except BaseException as e_:  # noqa: B036 (KeyboardInterrupt is one of the injected kinds)
                if type(e_).__name__ in ("StopRun", "SystemExit"):
                    self.rseam.disarm()
                    raise
                raised = e_
            fired = self.rseam.disarm()
            ctx.log("c", f"first attempt {which} {f}", f"fired={fired} raised={type(raised).__name__ if raised is not None else None}")
            if fired:
                ctx.fault("read_" + ff["kind"])
                ctx.probe("dataset_read_repeated_after_transient_fault")
                # the repetition may fail as well (dclab gives up a basin whose access failed): it must not deliver wrong data
                try:
                    with warnings.catch_warnings():
                        warnings.simplefilter("ignore")
                        np.asarray(ds[f][:])
                except Exception:
                    ctx.probe("repetition_after_fault_failed")
                    ctx.log("c", f"ds_read {which} {f} repetition failed")
                    return
        with warnings.catch_warnings():
            warnings.simplefilter("ignore")
            with ctx.sut("C17.dataset.read", sig={"which": which}):
                obj = ds[f]
                if op["how"] == "idx":
                    got, exp = obj[i], truth[i]
                elif op["how"] == "slice":
                    got, exp = obj[i:i + 4], truth[i:i + 4]
                elif op["how"] == "summary" and not all(hasattr(obj, a) for a in ("min", "max", "mean")):
                    got, exp = obj[:], truth     # (mapped-basin proxies offer no summaries)
                elif op["how"] == "summary":
                    # the memoised minimum / maximum / mean of the feature object
                    got = np.array([float(obj.min()), float(obj.max()), float(obj.mean())])
                    exp = np.array([float(np.nanmin(truth)), float(np.nanmax(truth)), float(np.nanmean(truth))])
                    ctx.probe("summary_read")
                    if not np.allclose(got, exp, rtol=1e-12, atol=0):
                        ctx.violation("C17.dataset.summary", f"{which} dataset: min/max/mean of {f} are {got.tolist()}, the selected events give {exp.tolist()}",
                                      sig={"which": which})
                    got = exp
                elif op["how"] == "asarray":
                    got, exp = np.asarray(obj), truth
                elif op["how"] == "asarray_f32":
                    got, exp = np.asarray(obj, dtype=np.float32), truth.astype(np.float32)
                    ctx.probe("first_access_with_dtype")
                elif op["how"] == "asarray_int":
                    got, exp = np.asarray(obj, dtype=int), truth.astype(int)
                    ctx.probe("first_access_with_dtype")
                else:
                    got, exp = obj[:], truth
        ctx.checked()
        ctx.state_ops += 1
        ctx.state("ds_" + which, op["how"], False, bool(getattr(self, "mutated", False)))
        if not np.array_equal(np.asarray(got), np.asarray(exp)):
            ctx.violation("C17.dataset.value", f"{which} dataset: {f} ({op['how']}) differs from the stored data of the selected events (after earlier results were "
                          f"modified in place: {bool(getattr(self, 'mutated', False))}, after the root selected other events: {bool(getattr(self, 'refiltered', False))})",
                          sig={"which": which, "mutated_before": bool(getattr(self, "mutated", False))})
        self.last_results = [got] if isinstance(got, np.ndarray) else []
        ctx.log("c", f"ds_read {which} {f} {op['how']}", seeds.short_hash(np.asarray(got)))

    def do_ds_refilter(self, op):
        ctx = self.ctx
        if self.ds_objs is None:
            return
        dss = self.ds_objs
        rs = seeds.np_rng(op["dseed"], "refilter")
        sel = self.sel.copy()
        on, off = np.flatnonzero(sel), np.flatnonzero(~sel)
        if op["mode"] == "swap" and len(on) and len(off):
            sel[rs.choice(on)] = False
            sel[rs.choice(off)] = True
            ctx.probe("refilter_same_count")
        else:
            sel = rs.random(len(sel)) < 0.6
            if not sel.any():
                sel[0] = True
        self.sel = sel
        with warnings.catch_warnings():
            warnings.simplefilter("ignore")
            with ctx.sut("C17.dataset.refilter"):
                dss["file"].filter.manual[:] = sel
                dss["grandchild"].rejuvenate()
        self.refiltered = True
        self.last_results = []
        ctx.log("c", f"refilter {op['mode']}", seeds.short_hash(sel))

    def do_mutate(self, op):
        """the mutator actor writes into the arrays returned by the most recent call"""
        ctx = self.ctx
        for arr in self.last_results:
            if isinstance(arr, np.ndarray) and arr.size:
                try:
                    if arr.dtype == bool:
                        arr[...] = ~arr
                    else:
                        arr[...] = arr + 1 if arr.dtype.kind != "f" else arr * 0 - 7.5
                    ctx.probe("result_mutated")
                    self.mutated = True
                except ValueError:
                    ctx.probe("result_readonly")
        ctx.log("env", "mutate", len(self.last_results))

    @staticmethod
    def brief(res):
        if res[0] == "exc":
            return "raises " + res[1]
        return seeds.short_hash(list(res[1]) if isinstance(res[1], tuple) else res[1])


def run(trace, ctx):
    w = World(trace, ctx)
    while True:
        op = ctx.next_op(w.gen_op, max_ops=trace.get("max_ops", 40))
        if op is None:
            break
        w.execute(op)
    ctx.info["sample"] = {"knobs": trace["knobs"], "ops": (trace.get("ops") or [])[:10], "pool": [p[0] for p in w.pool]}
