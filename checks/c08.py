"""C08 — compress, repack, condense and tdms2rtdc preserve dataset content.

World A, single actor.  One run = a seeded history over a small population of
files in the run's scratch directory: "make" operations create inputs through
dclab's writer (gen.gen_model / gen.write_model, optionally with basins stored
through RTDCWriter.store_basin) and through a raw-h5py layout generator (every
storage layout the statement quantifies over); "tool" operations apply
compress / repack / condense to any file of the population, so that chains
arise; a "tdms" operation converts one of the small shipped fixtures.  After
every tool operation the output is compared with its input through raw h5py
and through dclab, the sha-256 of every pre-existing file is compared with its
value before the call, and (seeded) the tool is applied to its own output."""
import contextlib
import io
import json
import re
import warnings

import numpy as np

from dst import gen, seeds, seams, h5digest

NAME = "C08"
PROPERTY = "C08"
LEVEL = "exploration"
RULE = ("one evaluation = one seeded history (<= 9 operations, <= 12 files of 3..40 events, images 8x12): make-model "
        "(dclab writer, optional store_basin), make-layout (raw h5py: contiguous/chunked/gzip/lzf/zstd<5/zstd>=5, chunks "
        "longer than the data, variable/fixed-length logs, empty logs/tables/features, tables with attributes, internal/"
        "file/mapped basins, one or several basin definitions, defect-marking software versions, unknown features), tool "
        "(compress | repack +-strip_logs +-strip_basins | condense +-ancillary +-basin features on any file, optionally "
        "applied again to its own output), tdms (tdms2rtdc of a shipped fixture, <= 1 per run, ~10% of runs). After every "
        "tool operation: structural input<->output comparison through raw h5py and through dclab, input sha-256 "
        "comparison, idempotence comparison. non-trivial = at least one tool operation and one comparison; distinct = "
        "distinct event-log digests")
STATE_MEASURE = "distinct (tool, options, input producer, basin mode of the input, software-version class) tuples"
PROBES = ["tool_isolated", "layout_contiguous", "layout_chunked", "layout_gzip", "layout_lzf", "layout_zstd_low", "layout_zstd_high",
          "chunks_longer_than_data", "log_vlen", "log_fixed_nonascii", "log_empty", "table_with_attrs", "table_empty",
          "basin_internal", "basin_file", "basin_mapped", "basin_multi_defs", "basin_via_writer", "defective_feature_dropped",
          "unknown_feature_dropped", "strip_logs", "strip_basins", "chain_compress_compress", "chain_repack_compress",
          "chain_other", "idempotence_checked", "compress_log_renamed", "condense_basin_feature", "condense_ancillary_feature",
          "condense_internal_basin_feature", "internal_basin_shadows_computable", "tdms_converted", "tool_in_process", "unknown_feature_registered_later", "defective_volume_repaired_in_place", "realistic_size_input", "foreign_suffix_output", "empty_feature_dataset", "empty_feature_sorts_first", "empty_events_group",
          "basin_feature_compared", "model_input", "layout_input"]
COMPONENTS = {
    "real": ["dclab.cli compress/repack/condense/tdms2rtdc", "dclab.rtdc_dataset.copier (rtdc_copy, h5ds_copy, basin_definition_copy)",
             "dclab RTDCWriter, RTDC_HDF5 / RTDC_TDMS readers, basins", "h5py/HDF5 + hdf5plugin on tmpfs"],
    "stub": ["wall clock (virtual)", "uuid/random identifiers (seeded)", "dclab version string (0.99.0)"],
}
ASSUMPTIONS = [
    "every task is executed in a forked grandchild of the run (same virtual clock, same files), so that a crash in native code "
    "is recorded as a violation (C08.tool.crash) instead of ending the run",
    "generated inputs carry metadata consistent with their data (event count, roi size, samples per event), so that the writer's "
    "metadata completion at the end of compress/condense has nothing to change",
    "a zero-length log, table or feature dataset holds no data: it may be absent from the output",
    "which features are defective is modelled by a table over the generated software-version strings (checks/c08.py VERSIONS), "
    "written from the documented rules, not by calling dclab's predicate",
    "feature values are compared as numbers (NaN equal to NaN), logs as lists of str, storage dtype/layout is not compared",
    "tdms2rtdc: the expected events are the first min-feature-length events of the .tdms dataset minus an all-zero first/last "
    "image or contour when skipping is enabled (documented behaviour of export and of the task)",
]

CHUNK_KNOBS = [1024 ** 2, 1024 ** 2, 640, 960, 2960]
TDMS_FIXTURES = ["fmt-tdms_2fl-no-image_2017", "fmt-tdms_shapein-2.0.1-no-image_2017", "fmt-tdms_minimal_2016"]
UNKNOWN_FEATURES = ["peter", "unknwn_x", "my_feature_7"]
WIDE = ["inert_ratio_prnc", "tilt"]
WIDE4 = ["inert_ratio_prnc", "tilt", "inert_ratio_cvx", "inert_ratio_raw"]
# software-version string -> which stored features the documentation declares defective
#   always: unconditionally; time: "time" if "frame" is stored and the frame rate is non-zero;
#   wide: if [imaging] roi size x > 500; volume_unless_log: "volume" unless the log dclab_issue_141 exists
VERSIONS = [
    ("ShapeIn 2.2.2.4", {}),
    ("ShapeIn 2.2.2.4", {}),
    ("ShapeIn 2.0.6", {"always": ["aspect"]}),
    ("ShapeIn 2.0.7", {"always": ["aspect"]}),
    ("ShapeIn 2.0.5 | dclab 0.36.1", {"volume_unless_log": True, "time": True, "wide": WIDE}),
    ("ShapeIn 2.2.0.0 | dclab 0.47.5", {"time": True, "wide": WIDE}),
    ("ShapeIn 2.2.0.0 | dclab 0.47.6", {"wide": WIDE}),
    ("ShapeIn 2.0.1 | dclab 0.48.2", {"wide": WIDE4}),
    ("Fancy 1.0 | dclab 0.48.1", {"wide": WIDE4}),
    ("ShapeIn 2.2.2.4 | dclab 0.48.3", {}),
]
VERSION_RULES = dict(VERSIONS)
LAYOUTS = ["contig", "chunk", "chunk_big", "gzip", "lzf", "zstd_lo", "zstd_hi", "zstd_hi_big", "chunk_fl32"]
LAYOUT_SCALARS = ["area_um", "deform", "aspect", "bright_avg", "pos_x", "pos_y", "size_x", "tilt", "volume", "temp",
                  "inert_ratio_cvx", "inert_ratio_prnc", "inert_ratio_raw", "userdef1", "time", "frame", "index_online",
                  "nevents", "ml_class", "index"]
_HEXSUFFIX = re.compile(r"_[0-9a-f]{32}$")


def plan(tier):
    if tier == "quick":
        return {"runs": 400, "budget_s": 38, "run_timeout_s": 180, "det_pairs": 3}
    return {"runs": 30000, "budget_s": 780, "run_timeout_s": 300, "det_pairs": 3}


def make_trace(seed, tier):
    r = seeds.rng(seed, "plan")
    return {"knobs": {"chunk_bytes": r.choice(CHUNK_KNOBS), "inproc": r.random() < 0.5},
            "max_ops": r.choice([3, 5, 7, 9]),
            "tdms": r.randrange(3) if r.random() < 0.10 else None,
            "ops": None}


# -----------------------------------------------------------------------------------
# small helpers
# -----------------------------------------------------------------------------------

@contextlib.contextmanager
def quiet():
    with warnings.catch_warnings():
        warnings.simplefilter("ignore")
        with contextlib.redirect_stdout(io.StringIO()):
            yield


def dec(x):
    if isinstance(x, (bytes, np.bytes_)):
        return bytes(x).decode("utf-8", "replace")
    return x


def lines_of(dset):
    if dset.shape[0] == 0:
        return []
    return [dec(x) for x in dset[:].tolist()]


def val_equal(a, b):
    """value equality of two attribute values / arrays (NaN-aware, bytes == str)"""
    a, b = dec(a), dec(b)
    if isinstance(a, str) or isinstance(b, str):
        return isinstance(a, str) and isinstance(b, str) and a == b
    a, b = np.asarray(a), np.asarray(b)
    if a.dtype.names or b.dtype.names:
        if a.dtype.names != b.dtype.names or a.shape != b.shape:
            return False
        return all(val_equal(a[c], b[c]) for c in a.dtype.names)
    if a.shape != b.shape:
        return False
    if a.dtype.kind in "SUO" or b.dtype.kind in "SUO":
        return [dec(x) for x in a.ravel().tolist()] == [dec(x) for x in b.ravel().tolist()]
    if a.dtype.kind in "fc" or b.dtype.kind in "fc":
        return bool(np.array_equal(a, b, equal_nan=True))
    if a.dtype.kind == "b" or b.dtype.kind == "b":
        return a.dtype.kind == b.dtype.kind and bool(np.array_equal(a, b))
    # integers of different signedness: compare exactly
    return bool(np.array_equal(a.astype(object), b.astype(object))) if a.dtype != b.dtype else bool(np.array_equal(a, b))


def feat_equal(a, b):
    if isinstance(a, list) or isinstance(b, list):
        return isinstance(a, list) and isinstance(b, list) and len(a) == len(b) and all(val_equal(x, y) for x, y in zip(a, b))
    if isinstance(a, dict) or isinstance(b, dict):
        return isinstance(a, dict) and isinstance(b, dict) and sorted(a) == sorted(b) and all(val_equal(a[k], b[k]) for k in a)
    return val_equal(a, b)


def ds_feature(ds, f, n=None):
    """all values of feature f of an open dataset, as ndarray | list (contour) | dict (trace)"""
    obj = ds[f]
    if f == "contour":
        return [np.asarray(obj[i]) for i in range(len(ds) if n is None else n)]
    if f == "trace":
        return {k: np.asarray(obj[k][:]) for k in sorted(obj.keys())}
    if f == "mask" and ds.format == "tdms":
        return np.array([np.asarray(obj[i]) for i in range(len(ds) if n is None else n)])
    return np.asarray(obj[:])


def basin_dicts_raw(h):
    out = []
    if "basins" in h:
        for k in h["basins"]:
            ls = lines_of(h["basins"][k])
            if ls:
                out.append(json.loads(" ".join(ls)))
    return out


def canon(dicts):
    return sorted(json.dumps({k: v for k, v in d.items() if k != "key"}, sort_keys=True) for d in dicts)


def norm_name(name):
    return _HEXSUFFIX.sub("_H", name)


# -----------------------------------------------------------------------------------
# raw layout generator
# -----------------------------------------------------------------------------------

class Layout:
    """creates datasets with a seeded storage layout and reports which kinds were used"""

    def __init__(self, pr, ctx):
        self.pr, self.ctx = pr, ctx

    def kwargs(self, shape, allow=None):
        import hdf5plugin
        pr = self.pr
        n = shape[0]
        kind = pr.choice(allow or LAYOUTS)
        if n == 0 and kind == "contig":
            kind = "chunk"
        rest = tuple(shape[1:])
        small = (max(1, pr.choice([1, 2, 3, max(1, n // 2), max(1, n)])),) + rest
        big = (n + pr.choice([1, 7, 30]),) + rest
        unlimited = (None,) + rest
        if n == 0:
            small = (pr.choice([1, 4]),) + rest
        kw = {}
        if kind == "contig":
            self.ctx.probe("layout_contiguous")
        elif kind == "chunk":
            kw = {"chunks": small, "maxshape": unlimited}
            self.ctx.probe("layout_chunked")
        elif kind == "chunk_big":
            kw = {"chunks": big, "maxshape": unlimited}
            self.ctx.probe("chunks_longer_than_data")
        elif kind == "gzip":
            kw = {"chunks": small, "maxshape": unlimited, "compression": "gzip", "compression_opts": pr.choice([1, 4, 9]),
                  "shuffle": pr.random() < 0.5}
            self.ctx.probe("layout_gzip")
        elif kind == "lzf":
            kw = {"chunks": small, "maxshape": unlimited, "compression": "lzf"}
            self.ctx.probe("layout_lzf")
        elif kind == "zstd_lo":
            kw = dict(hdf5plugin.Zstd(clevel=pr.choice([1, 2, 4])))
            kw.update({"chunks": pr.choice([small, big]), "maxshape": unlimited, "fletcher32": pr.random() < 0.5})
            self.ctx.probe("layout_zstd_low")
        elif kind == "zstd_hi":
            kw = dict(hdf5plugin.Zstd(clevel=pr.choice([5, 6, 9])))
            kw.update({"chunks": small, "maxshape": unlimited, "fletcher32": pr.random() < 0.5})
            self.ctx.probe("layout_zstd_high")
        elif kind == "zstd_hi_big":
            kw = dict(hdf5plugin.Zstd(clevel=pr.choice([5, 7])))
            kw.update({"chunks": big, "maxshape": unlimited})
            self.ctx.probe("layout_zstd_high")
            self.ctx.probe("chunks_longer_than_data")
        elif kind == "chunk_fl32":
            kw = {"chunks": small, "maxshape": unlimited, "fletcher32": True}
            self.ctx.probe("layout_chunked")
        return kw

    def dataset(self, group, name, data, allow=None):
        data = np.asarray(data)
        kw = self.kwargs(data.shape, allow)
        return group.create_dataset(name, data=data, **kw)

    def text(self, group, name, lines, vlen):
        import h5py
        n = len(lines)
        allow = ["contig", "chunk", "chunk_big", "gzip", "zstd_hi", "zstd_lo"] if n else ["chunk", "gzip", "zstd_hi"]
        kw = self.kwargs((n,), allow)
        if vlen:
            kw.pop("fletcher32", None)  # (HDF5 cannot checksum variable-length data)
            ds = group.create_dataset(name, shape=(n,), dtype=h5py.string_dtype(), **kw)
            for i, ln in enumerate(lines):
                ds[i] = ln
        else:
            enc = [ln.encode("utf-8") for ln in lines]
            width = max([len(e) for e in enc] + [self.pr.choice([1, 20, 100])]) + self.pr.choice([0, 0, 3])
            ds = group.create_dataset(name, shape=(n,), dtype=f"S{width}", **kw)
            for i, e in enumerate(enc):
                ds[i] = e
        return ds


def write_root_meta(h, meta, n, version, as_bytes=False):
    for sec, d in meta.items():
        for k, v in d.items():
            if isinstance(v, str) and as_bytes:
                v = np.bytes_(v.encode("utf-8"))
            h.attrs[f"{sec}:{k}"] = v
    h.attrs["experiment:event count"] = n
    h.attrs["setup:software version"] = np.bytes_(version.encode()) if as_bytes else version


def model_defective(version, event_names, attrs, time_is_f32, log_names):
    """the stored features that the documentation declares defective for this file (reference model)"""
    rules = VERSION_RULES.get(version, {})
    out = set(rules.get("always", []))
    if rules.get("volume_unless_log") and "dclab_issue_141" not in log_names:
        out.add("volume")
    frame_rate = attrs.get("imaging:frame rate", 0)
    can_recompute_time = "frame" in event_names and frame_rate != 0
    if can_recompute_time and (rules.get("time") or time_is_f32):
        out.add("time")
    if attrs.get("imaging:roi size x", 0) > 500:
        out.update(rules.get("wide", []))
    return out & set(event_names)


# -----------------------------------------------------------------------------------
# the world
# -----------------------------------------------------------------------------------

class World:
    def __init__(self, trace, ctx):
        self.t, self.ctx = trace, ctx
        self.dir = ctx.scratch
        self.files = []    # dicts: name, kind, tools (chain of tools applied), basin, vclass
        self.counter = 0
        self.tdms_done = False

    def newname(self, tag):
        self.counter += 1
        return f"f{self.counter:02d}_{tag}.rtdc"

    # ---------------- generation ----------------
    def gen_op(self, r):
        nf = len(self.files)
        plan_ = getattr(self, "plan_ops", [])
        if plan_:
            return plan_.pop(0)
        with_basin = [i for i, f in enumerate(self.files) if f.get("basin") not in (None, "none")]
        if nf >= 2 and with_basin and r.random() < 0.1:
            # one file copied with other options, another file copied in between, then the first file copied again:
            # A without its basins, B, A with its basins (and the mirrored order)
            a = r.choice(with_basin)
            b = r.choice([i for i in range(nf) if i != a])
            o1, o2 = r.choice([(True, False), (True, False), (False, True)])
            self.plan_ops = [{"k": "tool", "src": b, "tool": r.choice(["compress", "repack", "condense"]), "opts": {}, "again": False, "outname": "plain"},
                             {"k": "tool", "src": a, "tool": r.choice(["compress", "repack", "condense"]) if not o2 else "repack",
                              "opts": {"strip_basins": True} if o2 else {}, "again": False, "outname": "plain"}]
            return {"k": "tool", "src": a, "tool": "repack", "opts": {"strip_logs": False, "strip_basins": o1}, "again": False, "outname": "plain"}
        if nf == 0 or (nf < 3 and r.random() < 0.4) or (nf < 12 and r.random() < 0.12):
            if r.random() < 0.1:
                # a file of realistic size: 80x250 images, event count at and around multiples of the writer's default chunk
                # length (52 images per 1 MiB chunk)
                return {"k": "model", "dseed": r.randrange(1 << 30), "n": r.choice([52, 104, 104, 156, 103, 105]), "real": True,
                        "cmp": r.choice(["zstd", "zstd1", "gzip", "none"]), "basin": "none"}
            if r.random() < 0.4:
                return {"k": "model", "dseed": r.randrange(1 << 30), "n": r.choice([3, 5, 9, 14, 23, 40]),
                        "cmp": r.choice(["zstd", "zstd1", "gzip", "none"]),
                        "basin": r.choice(["none", "none", "none", "internal", "file", "mapped"])}
            return {"k": "layout", "dseed": r.randrange(1 << 30), "n": r.choice([3, 4, 6, 9, 14, 23, 40]),
                    "ver": r.choice(list(range(len(VERSIONS))) + [4, 4, 4]),   # (4: the version whose 'volume' depends on a marker log)
                    "basin": r.choice(["none", "none", "none", "internal", "file", "mapped", "multi", "multi_file"]),
                    "special": r.choice(["none"] * 10 + ["empty_feature", "empty_events", "empty_events_basin"])}
        if self.t.get("tdms") is not None and not self.tdms_done and r.random() < 0.35:
            self.tdms_done = True
            return {"k": "tdms", "fx": self.t["tdms"], "skip_i": r.random() < 0.7, "skip_f": r.random() < 0.7}
        follow = getattr(self, "follow_up", None)
        self.follow_up = None
        if follow is not None and follow < len(self.files) and r.random() < 0.8:
            # the same path is copied again after it (or the feature registry) changed
            tool = r.choice(["compress", "repack"])
            return {"k": "tool", "src": follow, "tool": tool, "opts": {}, "again": False, "outname": "plain"}
        if nf and r.random() < 0.05:
            return {"k": "register", "src": r.randrange(1 << 16), "first": r.random() < 0.7}
        if nf and r.random() < 0.05:
            return {"k": "repair", "src": r.randrange(1 << 16), "first": r.random() < 0.7}
        shadow = [i for i, f in enumerate(self.files) if f.get("shadow")]
        if shadow and r.random() < 0.4:
            # a file whose internal basin holds a feature that could also be computed: condense it, mostly without
            # basin features and with ancillary ones (the computed values must not replace the stored ones)
            return {"k": "tool", "src": r.choice(shadow), "tool": "condense", "again": False,
                    "opts": {"store_ancillary_features": r.random() < 0.8, "store_basin_features": r.random() < 0.3}}
        tool = r.choice(["compress", "compress", "repack", "repack", "condense"])
        op = {"k": "tool", "src": r.randrange(1 << 16), "tool": tool, "opts": {}, "again": False,
              "outname": r.choice(["plain", "plain", "plain", "no_suffix", "foreign_suffix"])}
        if tool == "repack":
            op["opts"] = {"strip_logs": r.random() < 0.3, "strip_basins": r.random() < 0.3}
        elif tool == "condense":
            op["opts"] = {"store_ancillary_features": r.random() < 0.5, "store_basin_features": r.random() < 0.6}
        if tool != "condense":
            op["again"] = r.random() < 0.4
        return op

    def execute(self, op):
        getattr(self, "do_" + op["k"])(op)

    def _copy_first(self, idx):
        """a tool run on the file before it changes (what it then decides must not stick to the path)"""
        self.do_tool({"k": "tool", "src": idx, "tool": "compress", "opts": {}, "again": False, "outname": "plain"})

    def do_register(self, op):
        """A feature name that dclab did not know becomes a registered temporary feature in the middle of the session."""
        import dclab
        import h5py
        ctx = self.ctx
        reg = getattr(self, "registered", set())
        cands = []
        for i, f in enumerate(self.files):
            with h5py.File(self.dir / f["name"], "r") as h:
                names = [u for u in UNKNOWN_FEATURES if u in h.get("events", {}) and u not in reg]
            if names:
                cands.append((i, names))
        if not cands:
            return
        i, names = cands[op["src"] % len(cands)]
        if op.get("first"):
            self._copy_first(i)
        name = names[0]
        dclab.register_temporary_feature(name)
        self.registered = reg | {name}
        self.follow_up = i
        ctx.probe("unknown_feature_registered_later")
        ctx.log("p", f"register {name}")

    def do_repair(self, op):
        """A file whose volume counts as defective is repaired in place the documented way (marker log dclab_issue_141)."""
        import h5py
        ctx = self.ctx
        cands = []
        for i, f in enumerate(self.files):
            with h5py.File(self.dir / f["name"], "r") as h:
                ev = h.get("events", {})
                logs = list(h["logs"].keys()) if "logs" in h else []
                version = dec(h.attrs.get("setup:software version", ""))
                f32 = "time" in ev and isinstance(ev["time"], h5py.Dataset) and ev["time"].dtype == np.float32
                if "volume" in model_defective(version, list(ev.keys()), dict(h.attrs), f32, logs):
                    cands.append(i)
        if not cands:
            return
        i = cands[op["src"] % len(cands)]
        if op.get("first"):
            self._copy_first(i)
        with h5py.File(self.dir / self.files[i]["name"], "a") as h:
            h.require_group("logs").create_dataset("dclab_issue_141", data=np.array([b"volume recomputed"], dtype="S100"))
        self.follow_up = i
        ctx.probe("defective_volume_repaired_in_place")
        ctx.log("p", f"repair {self.files[i]['name']}")

    # ---------------- make: dclab writer ----------------
    def do_model(self, op):
        from dclab.rtdc_dataset.writer import RTDCWriter
        ctx = self.ctx
        ds_ = op["dseed"]
        pr = seeds.rng(ds_, "model-opts")
        n = op["n"]
        name = self.newname("m")
        fl = pr.random() < 0.35
        pool = gen.FLOAT_SCALARS + ["time", "frame", "index_online", "nevents", "ml_class"]
        if op.get("real"):
            m = gen.gen_model(ds_, n, shape=(80, 250), scalars=pr.sample(pool, pr.randint(1, 3)), image=True, mask=False,
                              n_logs=pr.randint(0, 2), n_tables=0)
            ctx.probe("realistic_size_input")
        else:
            m = gen.gen_model(ds_, n, scalars=pr.sample(pool, pr.randint(1, 7)), image=pr.random() < 0.55,
                              mask=pr.random() < 0.5, contour=pr.random() < 0.25, trace=fl and pr.random() < 0.6, fl=fl,
                              n_logs=pr.randint(0, 3), n_tables=pr.randint(0, 2),
                              nan_mode=pr.choice(["none", "none", "some", "all", "first"]), special=pr.random() < 0.2,
                              long_logs=pr.random() < 0.3)
        with quiet():
            gen.write_model(m, self.dir / name, compression=op["cmp"])
            basin = op.get("basin", "none")
            if basin != "none":
                rs = seeds.np_rng(ds_, "basin")
                tname = None
                if basin in ("file", "mapped"):
                    tname = self.newname("t")
                    mt = n if basin == "file" else pr.choice([2, 5, n + 3])
                    # (a basin feature that the referrer could also compute from its own data would have to equal that
                    #  computation in a consistent measurement: area_ratio only where area_cvx/area_msd are not both stored)
                    third = "userdef4" if {"area_cvx", "area_msd"} <= set(m.feats) else "area_ratio"
                    tm = gen.gen_model(seeds.H(ds_, "target"), mt, scalars=["userdef2", "pos_y", third],
                                       image=pr.random() < 0.4, mask=False, n_logs=0)
                    gen.write_model(tm, self.dir / tname, compression="zstd")
                with RTDCWriter(self.dir / name, mode="append") as hw:
                    if basin == "internal":
                        mi = pr.choice([1, 3, 4])
                        hw.store_basin(basin_name="int", basin_type="internal", basin_format="h5dataset",
                                       basin_locs=["basin_events"], basin_feats=["userdef3"],
                                       basin_map=rs.integers(0, mi, size=n).astype(np.uint64),
                                       internal_data={"userdef3": rs.uniform(0, 9, size=mi)})
                    elif basin == "file":
                        hw.store_basin(basin_name="origin", basin_type="file", basin_format="hdf5", basin_locs=[tname],
                                       basin_feats=pr.choice([None, ["userdef2", "pos_y"]]), verify=False)
                    else:
                        hw.store_basin(basin_name="origin", basin_type="file", basin_format="hdf5", basin_locs=[tname],
                                       basin_feats=pr.choice([None, ["userdef2"]]),
                                       basin_map=rs.integers(0, mt, size=n).astype(np.uint64), verify=False)
                ctx.probe("basin_via_writer")
                ctx.probe({"internal": "basin_internal", "file": "basin_file", "mapped": "basin_mapped"}[basin])
                if tname:
                    self.add_file(tname, "model", "none", "plain")
        ctx.probe("model_input")
        ctx.state_ops += 1
        self.add_file(name, "model", basin, "plain")
        ctx.log("p", f"make model {name} n={n} cmp={op['cmp']} basin={basin}", h5digest.h5_digest(self.dir / name))

    # ---------------- make: raw layout generator ----------------
    def do_layout(self, op):
        import h5py
        ctx = self.ctx
        ds_ = op["dseed"]
        pr = seeds.rng(ds_, "layout")
        rs = seeds.np_rng(ds_, "layout")
        lay = Layout(pr, ctx)
        n = op["n"]
        name = self.newname("l")
        version, rules = VERSIONS[op["ver"] % len(VERSIONS)]
        special = op.get("special", "none")
        basin = op.get("basin", "none")
        if special == "empty_events_basin":
            basin = "file"
        H, Wd = 8, 12
        image = pr.random() < 0.5
        mask = pr.random() < 0.4
        wide = (not image and not mask) and pr.random() < 0.6
        trace = pr.random() < 0.3
        scal = pr.sample(LAYOUT_SCALARS, pr.randint(2, 8))
        if rules:
            # make the defect markers matter: store some of the features they are about
            scal += [f for f in pr.sample(["aspect", "volume", "time", "frame", "tilt", "inert_ratio_prnc", "inert_ratio_cvx",
                                           "inert_ratio_raw"], pr.randint(2, 5)) if f not in scal]
        if pr.random() < 0.5 and "time" in scal and "frame" not in scal:
            scal.append("frame")
        meta = json.loads(json.dumps(gen.BASE_META))
        meta["imaging"]["roi size x"] = 600 if wide else Wd
        meta["imaging"]["roi size y"] = H
        if trace:
            meta.update(json.loads(json.dumps(gen.FL_META)))
            scal += [f for f in ("fl1_max", "fl2_max") if f not in scal]
        with h5py.File(self.dir / name, "w") as h:
            write_root_meta(h, meta, n, version, as_bytes=pr.random() < 0.25)
            if pr.random() < 0.3:
                h.attrs["user:note"] = "läyout"
                h.attrs["user:number"] = 7
            if pr.random() < 0.2:
                h.attrs["online_filter:area_um,deform polygon points"] = rs.uniform(0, 1, size=(4, 2))
            ev = h.create_group("events")
            if special not in ("empty_events", "empty_events_basin"):
                for f in scal:
                    nm_, sp_ = pr.choice(["none", "none", "some", "all"]), pr.random() < 0.15
                    if f in ("pos_x", "pos_y"):
                        # (no NaN/inf centroids: a NaN centroid next to a stored contour fails an assertion of the volume
                        #  computation - an inconsistent input, not a layout; see DESIGN section 14)
                        nm_, sp_ = "none", False
                    v = gen.scalar_values(rs, f, n, 0, nm_, special=sp_)
                    if f == "index":
                        v = np.arange(1, n + 1)
                    if v.dtype == np.float64 and pr.random() < 0.3:
                        v = v.astype(np.float32)
                    d = lay.dataset(ev, f, v)
                    if pr.random() < 0.5 and v.dtype.kind == "f" and not np.all(np.isnan(v)):
                        d.attrs["min"], d.attrs["max"], d.attrs["mean"] = np.nanmin(v), np.nanmax(v), np.nanmean(v)
                if image:
                    d = lay.dataset(ev, "image", rs.integers(1, 255, size=(n, H, Wd)).astype(np.uint8))
                    d.attrs.create("CLASS", np.bytes_("IMAGE"))
                    d.attrs.create("IMAGE_VERSION", np.bytes_("1.2"))
                    d.attrs.create("IMAGE_SUBCLASS", np.bytes_("IMAGE_GRAYSCALE"))
                if mask:
                    mk = np.array([gen.blob_mask(rs, H, Wd) for _ in range(n)]).astype(np.uint8) * 255
                    d = lay.dataset(ev, "mask", mk)
                    d.attrs.create("CLASS", np.bytes_("IMAGE"))
                if pr.random() < 0.2:
                    g = ev.create_group("contour")
                    for i in range(n):
                        c = rs.integers(0, 8, size=(int(rs.integers(3, 9)), 2)).astype(np.int32)
                        lay.dataset(g, str(i), c, allow=["contig", "zstd_lo", "zstd_hi", "gzip"])
                if trace:
                    g = ev.create_group("trace")
                    for k in pr.sample(gen.TRACES[:4], pr.randint(1, 3)):
                        lay.dataset(g, k, rs.integers(-300, 3000, size=(n, 20)).astype(np.int16))
                if pr.random() < 0.3:
                    for u in pr.sample(UNKNOWN_FEATURES, pr.randint(1, 2)):
                        lay.dataset(ev, u, rs.uniform(0, 1, size=n))
                if special == "empty_feature":
                    if pr.random() < 0.6:
                        # (often a name that sorts before every other feature of the file)
                        ename = pr.choice(["userdef4", "area_cvx", "area_cvx"])
                        if ename in ev:
                            ename = "userdef4"
                        lay.dataset(ev, ename, np.zeros(0, dtype=np.float64))
                        if ename == sorted(ev)[0]:
                            ctx.probe("empty_feature_sorts_first")
                    else:
                        lay.dataset(ev, "image_bg", np.zeros((0, H, Wd), dtype=np.uint8))
                    ctx.probe("empty_feature_dataset")
            else:
                ctx.probe("empty_events_group")
            # logs
            nlogs = pr.randint(0, 3) if special != "empty_events" else pr.randint(1, 2)
            if nlogs:
                lg = h.create_group("logs")
                names = pr.sample(["log0", "log1", "wörk-lög", "M1_para.ini", "dclab_issue_141", "dclab-compress"], nlogs)
                if rules.get("volume_unless_log") and "volume" in scal and "dclab_issue_141" not in names and pr.random() < 0.6:
                    # the marker whose existence keeps 'volume' valid (often an empty log: only the name counts)
                    names.append("dclab_issue_141")
                for ln in names:
                    vlen = pr.random() < 0.5
                    if pr.random() < (0.5 if ln == "dclab_issue_141" else 0.15):
                        lines = []
                        ctx.probe("log_empty")
                    else:
                        lines = gen.gen_log_lines(pr, pr.randint(1, 6), long_lines=pr.random() < 0.3)
                    lay.text(lg, ln, lines, vlen)
                    if lines:
                        ctx.probe("log_vlen" if vlen else "log_fixed_nonascii")
            # tables
            ntab = pr.randint(0, 2)
            if ntab:
                tg = h.create_group("tables")
                for i in range(ntab):
                    t = gen.gen_table(rs, pr)
                    arr = t["data"]
                    if pr.random() < 0.3:
                        dt = np.dtype(arr.dtype.descr + [("count", "<i4"), ("vec", "<f8", (3,))])
                        a2 = np.zeros(arr.shape, dtype=dt)
                        for c in arr.dtype.names:
                            a2[c] = arr[c]
                        a2["count"] = rs.integers(0, 99, size=arr.shape)
                        a2["vec"] = rs.uniform(0, 1, size=arr.shape + (3,))
                        arr = a2
                    if pr.random() < 0.1:
                        arr = arr[:0]
                        ctx.probe("table_empty")
                    d = lay.dataset(tg, f"tab{i}", arr, allow=["contig", "chunk", "gzip", "zstd_hi", "zstd_lo"])
                    attrs = dict(t["attrs"])
                    if pr.random() < 0.4:
                        attrs["COLOR_col0"] = "räd"
                        attrs["limits"] = np.array([0.5, 2.5])
                    for k, v in attrs.items():
                        d.attrs[k] = v
                    if attrs:
                        ctx.probe("table_with_attrs")
            # basins
            targets = self.layout_basins(h, basin, n, pr, rs, lay)
        for tn in targets:
            self.add_file(tn, "layout", "none", "plain")
        ctx.probe("layout_input")
        ctx.state_ops += 1
        vclass = "plain" if not rules else "defect-marking"
        self.add_file(name, "layout", basin, vclass)
        ctx.log("p", f"make layout {name} n={n} ver={op['ver'] % len(VERSIONS)} basin={basin} special={special}",
                h5digest.h5_digest(self.dir / name))

    def layout_basins(self, h, basin, n, pr, rs, lay):
        import h5py
        ctx = self.ctx
        targets = []
        if basin == "none":
            return targets

        def define(d, key=None):
            lines = json.dumps(d, indent=pr.choice([2, 2, None])).split("\n")
            key = key or ("%032x" % pr.getrandbits(128) if pr.random() < 0.6 else f"basin{len(h.get('basins', []))}")
            lay.text(h.require_group("basins"), key, lines, vlen=pr.random() < 0.3)

        def internal():
            mi = pr.choice([1, 2, 5])
            be = h.require_group("basin_events")
            feats = ["userdef5"]
            lay.dataset(be, "userdef5", rs.uniform(0, 50, size=mi))
            if pr.random() < 0.4:
                feats.append("userdef6")
                lay.dataset(be, "userdef6", rs.uniform(0, 50, size=mi).astype(np.float32))
            if pr.random() < 0.3 and "image_bg" not in h["events"]:
                # (never next to a stored - here: empty - image_bg: a feature held in /events and in /basin_events at once
                #  is not a layout dclab writes)
                feats.append("image_bg")
                lay.dataset(be, "image_bg", rs.integers(0, 255, size=(mi, 8, 12)).astype(np.uint8))
            if pr.random() < 0.4 and "ml_class" not in h["events"]:
                # a curated classification in the internal basin next to the scores it could be recomputed from
                # (never together with a stored ml_class: a feature held in /events and in /basin_events at once
                #  is not a layout dclab writes; the copier then keeps the /events one only)
                feats.append("ml_class")
                lay.dataset(be, "ml_class", (5 + rs.integers(0, 3, size=mi)).astype(np.int64))
                for sc in ("ml_score_abc", "ml_score_xyz"):
                    if sc not in h["events"]:
                        lay.dataset(h["events"], sc, rs.uniform(0.05, 0.95, size=n))
                ctx.probe("internal_basin_shadows_computable")
            lay.dataset(h["events"], "basinmap0", rs.integers(0, mi, size=n).astype(np.uint64))
            define({"description": None, "format": "h5dataset", "name": "internal", "type": "internal",
                    "features": sorted(feats), "mapping": "basinmap0", "paths": ["basin_events"]})
            ctx.probe("basin_internal")

        def target(mt, tag):
            tname = self.newname(tag)
            with h5py.File(self.dir / tname, "w") as ht:
                meta = json.loads(json.dumps(gen.BASE_META))
                write_root_meta(ht, meta, mt, "ShapeIn 2.2.2.4")
                ev = ht.create_group("events")
                lt = Layout(pr, ctx)
                for f in ["userdef2", "pos_y"] + (["area_ratio"] if pr.random() < 0.5 else []):
                    lt.dataset(ev, f, gen.scalar_values(rs, f, mt, 1))
                if pr.random() < 0.4:
                    lt.dataset(ev, "image", rs.integers(1, 255, size=(mt, 8, 12)).astype(np.uint8))
            targets.append(tname)
            return tname

        def filebasin(mapped, mapname="basinmap1"):
            mt = pr.choice([2, 6, n + 2]) if mapped else n
            tname = target(mt, "t")
            d = {"description": "a file basin", "format": "hdf5", "name": "origin", "type": "file",
                 "features": pr.choice([None, None, ["userdef2"], ["pos_y", "userdef2"]]),
                 "mapping": mapname if mapped else "same", "paths": [tname]}
            if mapped:
                lay.dataset(h["events"], mapname, rs.integers(0, mt, size=n).astype(np.uint64))
                ctx.probe("basin_mapped")
            else:
                ctx.probe("basin_file")
            define(d)

        if basin == "internal":
            internal()
        elif basin == "file":
            filebasin(False)
        elif basin == "mapped":
            filebasin(True)
        elif basin == "multi":
            internal()
            filebasin(pr.random() < 0.5)
            ctx.probe("basin_multi_defs")
        elif basin == "multi_file":
            filebasin(False)
            filebasin(True)
            if pr.random() < 0.3:
                filebasin(True, "basinmap2")
            ctx.probe("basin_multi_defs")
        return targets

    def add_file(self, name, kind, basin, vclass, tools=()):
        import h5py
        with h5py.File(self.dir / name, "r") as h:
            shadow = "basin_events" in h and "ml_class" in h["basin_events"] and "ml_class" not in h.get("events", {})
        self.files.append({"name": name, "kind": kind, "basin": basin, "vclass": vclass, "tools": list(tools), "shadow": bool(shadow)})

    # ---------------- file facts (raw) ----------------
    def facts(self, name):
        import h5py
        with h5py.File(self.dir / name, "r") as h:
            ev = h.get("events")
            names = list(ev.keys()) if ev is not None else []
            empty = []
            for f in names:
                o = ev[f]
                if isinstance(o, h5py.Dataset) and o.shape[0] == 0:
                    empty.append(f)
            vlen_hi = False
            for g in ("logs", "basins"):
                for k in (h[g] if g in h else []):
                    d = h[g][k]
                    fl = d.id.get_create_plist().get_filter_by_id(32015)
                    if d.dtype.kind == "O" and fl is not None and fl[1][0] >= 5:
                        vlen_hi = True
            return {"has_events_group": ev is not None, "events": names, "empty": empty, "vlen_hi": vlen_hi,
                    "n_basins": len(h["basins"]) if "basins" in h else 0}

    def run_tool(self, fn, oracle, sig, label, crash_what=None):
        """Execute fn() (a dclab CLI task) in a forked grandchild, so that native code that kills the process is an
        observation instead of the end of the run.  Returns "ok" | "raised" | "crashed"; failures are recorded as
        (non-fatal) violations of `oracle` (exception) or C08.tool.crash (death by signal)."""
        import os
        import sys
        import threading
        import traceback
        ctx = self.ctx
        if self.t["knobs"].get("inproc") and crash_what is None:
            # the task is called as a library function of the long-lived process (as GUIs do): whatever dclab memoises at
            # module level survives from one call to the next.  Files with the crash-prone layout stay isolated.
            ctx.probe("tool_in_process")
            try:
                with quiet():
                    fn()
            except Exception as e:
                where = "?"
                for fs in reversed(traceback.extract_tb(e.__traceback__)):
                    if "/dclab/" in fs.filename:
                        where = fs.filename.split("/dclab/", 1)[1] + ":" + fs.name
                        break
                sg = dict(sig)
                if sg.get("what") == "other":
                    sg.update({"exc": type(e).__name__, "where": where})
                tb = "".join(traceback.format_exception(type(e), e, e.__traceback__))[-1200:]
                ctx.violation(oracle, f"{label}: unexpected {type(e).__name__}: {str(e)[:300]}\n{tb}", sig=sg, fatal=False)
                return "raised " + type(e).__name__
            return "ok"
        ctx.probe("tool_isolated")
        for t in threading.enumerate():   # (basin availability checkers of closed datasets: let them finish before forking)
            if t is not threading.current_thread():
                t.join(timeout=5)
        r, w = os.pipe()
        sys.stdout.flush()
        sys.stderr.flush()
        pid = os.fork()
        if pid == 0:
            code = 0
            try:
                os.close(r)
                devnull = os.open(os.devnull, os.O_WRONLY)
                os.dup2(devnull, 1)
                os.dup2(devnull, 2)
                rep = {"status": "ok"}
                try:
                    with quiet():
                        fn()
                except BaseException as e:  # noqa: the task's failure is data here
                    where = "?"
                    for fs in reversed(traceback.extract_tb(e.__traceback__)):
                        if "/dclab/" in fs.filename:
                            where = fs.filename.split("/dclab/", 1)[1] + ":" + fs.name
                            break
                    rep = {"status": "raised", "exc": type(e).__name__, "msg": str(e)[:300], "where": where,
                           "tb": "".join(traceback.format_exception(type(e), e, e.__traceback__))[-1200:]}
                with os.fdopen(w, "wb") as f:
                    f.write(json.dumps(rep).encode())
            except BaseException:
                code = 3
            finally:
                os._exit(code)
        os.close(w)
        chunks = []
        while True:
            b = os.read(r, 1 << 16)
            if not b:
                break
            chunks.append(b)
        os.close(r)
        _, status = os.waitpid(pid, 0)
        if os.WIFSIGNALED(status):
            ctx.violation("C08.tool.crash", f"{label}: the process executing the task was killed by signal {os.WTERMSIG(status)} "
                          f"(crash in native code, no Python exception)",
                          sig={"what": crash_what or sig.get("what"), "signal": os.WTERMSIG(status)}, fatal=False)
            return "crashed"
        try:
            rep = json.loads(b"".join(chunks).decode())
        except ValueError:
            raise RuntimeError(f"tool runner died without report (wait status {status})")
        if rep["status"] == "raised":
            sg = dict(sig)
            if sg.get("what") == "other":   # (classified inputs keep one signature whatever the exception type)
                sg.update({"exc": rep["exc"], "where": rep["where"]})
            ctx.violation(oracle, f"{label}: unexpected {rep['exc']}: {rep['msg']}\n{rep['tb']}", sig=sg, fatal=False)
            return "raised " + rep["exc"]
        return "ok"

    def snapshot(self):
        out = {}
        for p in sorted(self.dir.rglob("*")):
            if p.is_file():
                out[str(p.relative_to(self.dir))] = h5digest.file_sha(p)
        return out

    def check_unchanged(self, before, what):
        ctx = self.ctx
        for rel, sha in before.items():
            ctx.checked()
            p = self.dir / rel
            if not p.exists():
                ctx.violation("C08.input.modified", f"{what}: pre-existing file {rel} disappeared", sig={"what": "removed"}, fatal=False)
            elif h5digest.file_sha(p) != sha:
                ctx.violation("C08.input.modified", f"{what}: pre-existing file {rel} changed (sha-256 differs)",
                              sig={"what": "changed"}, fatal=False)

    # ---------------- tool ----------------
    def do_tool(self, op):
        from dclab import cli
        ctx = self.ctx
        if not self.files:
            return
        src = self.files[op["src"] % len(self.files)]
        tool, opts = op["tool"], dict(op.get("opts") or {})
        facts = self.facts(src["name"])
        out = self.newname(tool[:4])
        out_arg = out
        if op.get("outname") == "foreign_suffix":
            # the user names the output like the input with another suffix: dclab appends '.rtdc'
            out_arg = src["name"][:-5] + "." + out[:-5]
            out = out_arg + ".rtdc"
            ctx.probe("foreign_suffix_output")
        elif op.get("outname") == "no_suffix":
            out_arg = out[:-5]
        what = "other"
        if facts["n_basins"] >= 2 and not opts.get("strip_basins"):
            what = "multi_basin_defs"
        elif not facts["events"]:
            what = "no_events_group"
        elif facts["empty"]:
            what = "empty_feature"
        crash_what = "vlen_strings_zstd5" if facts["vlen_hi"] else None
        label = f"{tool} {json.dumps(opts, sort_keys=True)} {src['name']}"
        before = self.snapshot()
        res = self.run_tool(lambda: getattr(cli, tool)(path_in=self.dir / src["name"], path_out=self.dir / out_arg, **opts),
                            "C08.tool.raises", {"what": what}, label, crash_what=crash_what)
        ctx.state_ops += 1
        ctx.state(tool, json.dumps(opts, sort_keys=True), src["kind"], src["basin"], src["vclass"])
        self.check_unchanged(before, label)
        if res != "ok":
            ctx.log("t", label + " " + res)
            return
        if opts.get("strip_logs"):
            ctx.probe("strip_logs")
        if opts.get("strip_basins"):
            ctx.probe("strip_basins")
        if src["tools"]:
            last = src["tools"][-1]
            if last == "compress" and tool == "compress":
                ctx.probe("chain_compress_compress")
            elif last == "compress" and tool == "repack":
                ctx.probe("chain_repack_compress")
            else:
                ctx.probe("chain_other")
        if tool == "condense":
            ok = self.check_condense(src["name"], out, opts, label)
        else:
            ok = self.check_copy(src["name"], out, tool, opts, label, "C08")
        ctx.log("t", label + " -> " + out, self.summary(out))
        if ok:
            self.add_file(out, tool, src["basin"] if not opts.get("strip_basins") else "none", src["vclass"],
                          tools=src["tools"] + [tool])
        if ok and op.get("again") and tool in ("compress", "repack"):
            out2 = self.newname(tool[:4] + "2")
            before = self.snapshot()
            res2 = self.run_tool(lambda: getattr(cli, tool)(path_in=self.dir / out, path_out=self.dir / out2, **opts),
                                 "C08.tool.raises", {"what": "second_application"}, label + " (again)")
            self.check_unchanged(before, label + " (again)")
            if res2 == "ok":
                ctx.probe("idempotence_checked")
                self.check_copy(out, out2, tool, opts, label + " applied to its own output", "C08.idempotent", strict=True)
                ctx.log("t", label + " again -> " + out2, self.summary(out2))

    def summary(self, name):
        import h5py
        try:
            with h5py.File(self.dir / name, "r") as h:
                return json.dumps([sorted(h.get("events", {})), sorted(norm_name(k) for k in h.get("logs", {})),
                                   sorted(h.get("tables", {})), len(h.get("basins", {})), sorted(h.get("basin_events", {}))])
        except Exception as e:  # the output cannot even be opened: reported by the oracles
            return "unreadable " + type(e).__name__

    # ---------------- oracle: compress / repack ----------------
    def check_copy(self, pin, pout, tool, opts, label, oid, strict=False):
        """input <-> output equality for compress/repack. Returns True if the output is usable as a new input."""
        import h5py
        ctx = self.ctx
        strip_logs = bool(opts.get("strip_logs"))
        strip_basins = bool(opts.get("strip_basins"))
        usable = True

        def viol(sub, detail, sig):
            ctx.violation(f"{oid}.{sub}", f"{label}: {detail}", sig=sig, fatal=False)

        # ---------- raw route ----------
        events_group_lost = False
        # (anything that cannot be read back from the output is a finding about the output, not a harness problem)
        with ctx.sut(f"{oid}.compare", sig={"what": "raw_route_raises"}, fatal=False), \
                h5py.File(self.dir / pin, "r") as hi, h5py.File(self.dir / pout, "r") as ho:
            events_group_lost = "events" in hi and "events" not in ho
            iattrs = dict(hi.attrs)
            # metadata
            for k, v in iattrs.items():
                ctx.checked()
                if k not in ho.attrs:
                    viol("meta", f"root attribute {k!r} missing in the output", {"what": "meta_missing"})
                elif k == "setup:software version":
                    a, b = dec(v), dec(ho.attrs[k])
                    if not (b == a or b.startswith(a + " | dclab ")):
                        viol("meta", f"software version {a!r} became {b!r}", {"what": "version"})
                elif not val_equal(v, ho.attrs[k]):
                    viol("meta", f"root attribute {k!r}: {v!r} became {ho.attrs[k]!r}", {"what": "meta_value", "key": k})
            extra = sorted(set(ho.attrs) - set(iattrs))
            if extra:
                viol("meta", f"root attributes {extra} appear only in the output", {"what": "meta_extra"})
            # features
            iev = hi["events"] if "events" in hi else {}
            oev = ho["events"] if "events" in ho else {}
            inames = list(iev.keys())
            lognames = list(hi["logs"].keys()) if "logs" in hi else []
            version = dec(iattrs.get("setup:software version", ""))
            f32 = "time" in inames and isinstance(iev["time"], h5py.Dataset) and iev["time"].dtype == np.float32
            defective = model_defective(version, inames, iattrs, f32, lognames)
            unknown = {f for f in inames if f in UNKNOWN_FEATURES and f not in getattr(self, "registered", set())}
            empty = {f for f in inames if isinstance(iev[f], h5py.Dataset) and iev[f].shape[0] == 0}
            stripped = {f for f in inames if re.match(r"^basinmap[0-9]+$", f)} if strip_basins else set()
            expected = set(inames) - defective - unknown - stripped
            if defective:
                ctx.probe("defective_feature_dropped")
            if unknown:
                ctx.probe("unknown_feature_dropped")
            onames = set(oev.keys())
            ctx.checked()
            missing = sorted(expected - onames - empty)
            surplus = sorted(onames - expected)
            if missing:
                viol("feature.missing", f"features {missing} of the input are not in the output (dropped by model: "
                     f"defective {sorted(defective)}, unknown {sorted(unknown)})", {"what": "missing"})
            if surplus:
                kind = "defective" if set(surplus) & defective else ("unknown" if set(surplus) & unknown else
                                                                     ("stripped" if set(surplus) & stripped else "other"))
                viol("feature.extra", f"output holds features {surplus} that the input does not give (model: defective "
                     f"{sorted(defective)}, unknown {sorted(unknown)}, stripped {sorted(stripped)})", {"what": kind})
            if strict and (defective or unknown):
                viol("feature.missing", f"second application still drops {sorted(defective | unknown)}",
                     {"what": "issue141_log_stripped" if (strip_logs and defective == {"volume"}) else "second_drop"})
            for f in sorted(expected & onames):
                ctx.checked()
                d = self.obj_diff(iev[f], oev[f])
                if d:
                    viol("feature.value", f"feature {f}: {d}", {"what": "raw", "feat": f if f in ("image", "mask", "contour", "trace") else
                                                                ("basinmap" if f.startswith("basinmap") else "scalar")})
            # logs
            ilogs = {k: lines_of(hi["logs"][k]) for k in lognames}
            ologs = {k: lines_of(ho["logs"][k]) for k in ho["logs"]} if "logs" in ho else {}
            self.compare_logs(ilogs, ologs, tool, strip_logs, viol, "raw")
            # tables
            itabs = hi["tables"] if "tables" in hi else {}
            otabs = ho["tables"] if "tables" in ho else {}
            for k in itabs:
                ctx.checked()
                if k not in otabs:
                    if itabs[k].size:
                        viol("table.missing", f"table {k} is not in the output", {"what": "table_missing"})
                    continue
                if not val_equal(itabs[k][()], otabs[k][()]):
                    viol("table.cells", f"table {k}: cells differ", {"what": "table_cells"})
                ia, oa = dict(itabs[k].attrs), dict(otabs[k].attrs)
                lost = sorted(a for a in ia if a not in oa)
                changed = sorted(a for a in ia if a in oa and not val_equal(ia[a], oa[a]))
                if lost or changed:
                    viol("table.attrs", f"table {k}: attributes lost {lost}, changed {changed} (raw h5py)", {"what": "table_attrs"})
            extra = sorted(set(otabs) - set(itabs))
            if extra:
                viol("table.extra", f"tables {extra} appear only in the output", {"what": "table_extra"})
            # basins
            ib, ob = canon(basin_dicts_raw(hi)), canon(basin_dicts_raw(ho))
            ctx.checked()
            if strip_basins:
                left = [x for x in ("basins", "basin_events") if x in ho and len(ho[x])]
                if ob or left:
                    viol("strip.basins", f"basins were to be stripped but the output holds {left} / {len(ob)} definitions",
                         {"what": "strip_basins"})
            else:
                if ib != ob:
                    viol("basin.defs", f"basin definitions differ: input {ib} output {ob}", {"what": "basin_defs"})
                ibe = hi["basin_events"] if "basin_events" in hi else {}
                obe = ho["basin_events"] if "basin_events" in ho else {}
                for f in ibe:
                    ctx.checked()
                    if f not in obe:
                        viol("basin.events", f"internal basin feature {f} is not in the output", {"what": "basin_events_missing"})
                    else:
                        d = self.obj_diff(ibe[f], obe[f])
                        if d:
                            viol("basin.events", f"internal basin feature {f}: {d}", {"what": "basin_events_value"})
                extra = sorted(set(obe) - set(ibe))
                if extra:
                    viol("basin.events", f"internal basin features {extra} appear only in the output", {"what": "basin_events_extra"})

        # ---------- dclab route ----------
        import dclab
        with ctx.sut(f"{oid}.output.open", sig={"what": "open"}, fatal=False) as so:
            with quiet():
                dso = dclab.new_dataset(self.dir / pout)
        if so.exc is not None:
            return False
        with quiet():
            dsi = dclab.new_dataset(self.dir / pin)
        try:
            with quiet():
                fin = list(dsi.features_innate)
                with ctx.sut(f"{oid}.output.list", sig={"what": "no_events_group" if events_group_lost else "list"}, fatal=False) as sl:
                    fout = list(dso.features_innate)
                if sl.exc is not None:
                    return False
                n = len(dsi)
                keep = [f for f in fin if not (strip_basins and re.match(r"^basinmap[0-9]+$", f))]
                nonempty = [f for f in keep if f in ("contour", "trace") or len(dsi[f]) > 0]
                ctx.checked()
                if sorted(set(nonempty) - set(fout)) or sorted(set(fout) - set(keep)):
                    only_volume = set(nonempty) - set(fout) == {"volume"} and not set(fout) - set(keep)
                    viol("feature.set", f"dclab lists {sorted(fout)} for the output, {sorted(keep)} for the input",
                         {"what": "issue141_log_stripped" if (strip_logs and only_volume and self.has_marker_log(pin)) else "dclab_set"})
                for f in nonempty:
                    if f not in fout:
                        continue
                    ctx.checked()
                    with ctx.sut(f"{oid}.feature.read", sig={"what": "read"}, fatal=False) as sr:
                        a = ds_feature(dsi, f, n)
                        b = ds_feature(dso, f, n)
                    if sr.exc is None and not feat_equal(a, b):
                        viol("feature.value", f"feature {f} read through dclab differs", {"what": "dclab", "feat": f if f in ("image", "mask", "contour", "trace") else "scalar"})
                ctx.checked()
                if len(dso) != n:
                    viol("feature.value", f"len(output)={len(dso)} but len(input)={n}", {"what": "len"})
                # basin-provided features
                with ctx.sut(f"{oid}.basin.feature", sig={"what": "list_basin_features"}, fatal=False) as sb:
                    fbi = list(dsi.features_basin)
                    fbo = list(dso.features_basin)
                if sb.exc is None:
                    if strip_basins:
                        ctx.checked()
                        if fbo:
                            viol("strip.basins", f"basins were to be stripped but dclab offers basin features {fbo}", {"what": "strip_basins_dclab"})
                    else:
                        for f in fbi:
                            ctx.checked()
                            if f not in fbo:
                                viol("basin.feature", f"basin feature {f} of the input is not offered by the output", {"what": "basin_feature_missing"})
                                continue
                            if f in fin and f in fout:
                                continue  # innate data take precedence and were compared above
                            with ctx.sut(f"{oid}.basin.feature", sig={"what": "read"}, fatal=False) as sr:
                                a = ds_feature(dsi, f, n)
                                b = ds_feature(dso, f, n)
                            ctx.probe("basin_feature_compared")
                            if sr.exc is None and not feat_equal(a, b):
                                viol("basin.feature", f"basin feature {f} differs between input and output", {"what": "basin_feature_value"})
                # logs / tables / config through dclab
                with ctx.sut(f"{oid}.compare", sig={"what": "dclab_route_raises"}, fatal=False):
                    ilogs = {k: list(dsi.logs[k]) for k in dsi.logs}
                    ologs = {k: list(dso.logs[k]) for k in dso.logs}
                    self.compare_logs(ilogs, ologs, tool, strip_logs, viol, "dclab")
                    for k in dsi.tables:
                        ctx.checked()
                        if k not in dso.tables:
                            viol("table.missing", f"table {k} is not offered by dclab for the output", {"what": "table_missing"})
                            continue
                        ti, to = dsi.tables[k], dso.tables[k]
                        if not val_equal(ti[:], to[:]):
                            viol("table.cells", f"table {k}: cells differ (dclab)", {"what": "table_cells"})
                        ia, oa = dict(ti.attrs), dict(to.attrs)
                        bad = sorted(a for a in ia if a not in oa or not val_equal(ia[a], oa[a]))
                        if bad:
                            viol("table.attrs", f"table {k}: attributes {bad} lost or changed (dclab)", {"what": "table_attrs"})
                    for sec in dsi.config:
                        if sec in ("filtering", "calculation"):
                            continue
                        for key, v in dsi.config[sec].items():
                            if (sec, key) == ("setup", "software version"):
                                continue
                            ctx.checked()
                            if sec not in dso.config or key not in dso.config[sec] or not val_equal(v, dso.config[sec][key]):
                                viol("meta", f"[{sec}] {key}: {v!r} became {dso.config.get(sec, {}).get(key, '<missing>')!r} (dclab)",
                                     {"what": "meta_value", "key": f"{sec}:{key}"})
                    if not strip_basins:
                        ctx.checked()
                        a, b = canon(dsi.basins_get_dicts()), canon(dso.basins_get_dicts())
                        if a != b:
                            viol("basin.defs", f"basin definitions differ (dclab): {a} vs {b}", {"what": "basin_defs"})
        finally:
            with quiet():
                dsi.close()
                dso.close()
        return usable

    def obj_diff(self, a, b):
        """difference of two h5py objects (dataset or group of datasets) as text, '' if value-identical"""
        import h5py
        if isinstance(a, h5py.Group) or isinstance(b, h5py.Group):
            if not (isinstance(a, h5py.Group) and isinstance(b, h5py.Group)):
                return "group vs dataset"
            if sorted(a.keys()) != sorted(b.keys()):
                return f"members {sorted(a.keys())[:6]} vs {sorted(b.keys())[:6]}"
            for k in a:
                d = self.obj_diff(a[k], b[k])
                if d:
                    return f"{k}: {d}"
            return ""
        if a.shape != b.shape:
            return f"shape {a.shape} became {b.shape}"
        if a.size and not val_equal(a[()], b[()]):
            return "values differ"
        lost = sorted(k for k in a.attrs if k not in b.attrs or not val_equal(a.attrs[k], b.attrs[k]))
        if lost:
            return f"dataset attributes {lost} lost or changed"
        return ""

    def compare_logs(self, ilogs, ologs, tool, strip_logs, viol, route):
        ctx = self.ctx
        special = ("dclab-compress", "dclab-compress-warnings") if tool == "compress" else ()
        ctx.checked()
        if strip_logs:
            left = sorted(k for k, v in ologs.items() if v)
            if left:
                viol("strip.logs", f"logs were to be stripped but the output holds {left} ({route})", {"what": "strip_logs"})
            return
        accounted = set(special)
        for k, lines in ilogs.items():
            if not lines:
                accounted.add(k)   # an empty log holds no data: absent or empty in the output
                if ologs.get(k) and k not in special:   # (compress writes its own log under the special names)
                    viol("log.lines", f"empty log {k} became {len(ologs[k])} lines ({route})", {"what": "log_lines"})
                continue
            ctx.checked()
            if k in special:
                cands = [o for o in ologs if o.startswith(k + "_") and o not in ilogs and ologs[o] == lines]
                if not cands:
                    viol("log.missing", f"previous command log {k} was not kept under a new name ({route}); output logs "
                         f"{sorted(norm_name(o) for o in ologs)}", {"what": "log_renamed_missing"})
                else:
                    accounted.add(cands[0])
                    ctx.probe("compress_log_renamed")
                continue
            accounted.add(k)
            if k not in ologs:
                viol("log.missing", f"log {k} is not in the output ({route})", {"what": "log_missing"})
            elif ologs[k] != lines:
                bad = [i for i, (x, y) in enumerate(zip(lines, ologs[k])) if x != y][:3]
                viol("log.lines", f"log {k}: {len(lines)} lines became {len(ologs[k])}, first differing lines {bad} ({route})",
                     {"what": "log_lines"})
        extra = sorted(norm_name(o) for o in ologs if o not in accounted and ologs[o])
        if extra:
            viol("log.extra", f"logs {extra} appear only in the output ({route})", {"what": "log_extra"})

    def has_marker_log(self, name):
        """the 'dclab_issue_141' marker counts by its existence (also when it is an empty log, which ds.logs hides)"""
        import h5py
        with h5py.File(self.dir / name, "r") as h:
            return "logs" in h and "dclab_issue_141" in h["logs"]

    # ---------------- oracle: condense ----------------
    def check_condense(self, pin, pout, opts, label):
        import dclab
        import dclab.definitions as dfn
        import h5py
        ctx = self.ctx
        sbf = opts.get("store_basin_features", True)
        saf = opts.get("store_ancillary_features", True)

        def viol(sub, detail, sig):
            ctx.violation(f"C08.condense.{sub}", f"{label}: {detail}", sig=sig, fatal=False)

        with ctx.sut("C08.output.open", sig={"what": "open_condensed"}, fatal=False) as so:
            with quiet():
                dso = dclab.new_dataset(self.dir / pout)
        if so.exc is not None:
            return False
        with quiet():
            ds0 = dclab.new_dataset(self.dir / pin, enable_basins=False)
            dsb = dclab.new_dataset(self.dir / pin) if sbf else ds0
            # what a user of the input file sees (basins enabled): the reference for every value
            dsu = dsb if sbf else dclab.new_dataset(self.dir / pin)
        try:
            with ctx.sut("C08.condense.compare", sig={"what": "raises"}, fatal=False), quiet(), \
                    h5py.File(self.dir / pout, "r") as ho:
                oev = ho["events"] if "events" in ho else {}
                obe = ho["basin_events"] if "basin_events" in ho else {}
                n = len(ds0)
                required = {}
                for f in ds0.features_innate:
                    if dfn.scalar_feature_exists(f) and len(ds0[f]) > 0:
                        required[f] = ("stored", ds0)
                if sbf:
                    for f in dsb.features_basin:
                        if dfn.scalar_feature_exists(f) and f not in required:
                            required[f] = ("basin", dsb)
                if saf:
                    for f in dsb.features_ancillary:
                        if dfn.scalar_feature_exists(f) and f not in required:
                            required[f] = ("computed", dsb)
                for f, (kind, dsx) in sorted(required.items()):
                    with ctx.sut("C08.condense.read_input", sig={"what": kind}, fatal=False) as sr:
                        exp = np.asarray((dsu if f in dsu else dsx)[f][:])
                    if sr.exc is not None:
                        continue
                    ctx.checked()
                    if f in oev:
                        got = oev[f][()]
                        where = "events"
                    elif f in obe and f in dso.features_basin:
                        with ctx.sut("C08.condense.read_output", sig={"what": kind}, fatal=False) as sr:
                            got = np.asarray(dso[f][:])
                        if sr.exc is not None:
                            continue
                        where = "internal basin"
                        ctx.probe("condense_internal_basin_feature")
                    else:
                        viol("missing", f"{kind} scalar feature {f} of the input is not stored in the output "
                             f"(events: {sorted(oev)}, basin_events: {sorted(obe)})", {"what": kind})
                        continue
                    if kind == "basin":
                        ctx.probe("condense_basin_feature")
                    elif kind == "computed":
                        ctx.probe("condense_ancillary_feature")
                    if not val_equal(np.asarray(exp, dtype=np.float64), np.asarray(got, dtype=np.float64)):
                        viol("value", f"{kind} scalar feature {f} ({where}) differs from the input's", {"what": kind})
                # converse: every scalar feature stored in the output equals what the input offers
                with quiet():
                    dsfull = dsb if sbf else dclab.new_dataset(self.dir / pin)
                try:
                    for f in sorted(oev):
                        if f in required or not dfn.scalar_feature_exists(f) or not isinstance(oev[f], h5py.Dataset):
                            continue
                        ctx.checked()
                        if f not in dsfull:
                            viol("extra", f"output stores scalar feature {f} that the input does not offer", {"what": "extra"})
                            continue
                        with ctx.sut("C08.condense.read_input", sig={"what": "converse"}, fatal=False) as sr:
                            exp = np.asarray(dsfull[f][:])
                        if sr.exc is None and not val_equal(np.asarray(exp, dtype=np.float64), np.asarray(oev[f][()], dtype=np.float64)):
                            viol("value", f"scalar feature {f} stored in the output differs from the input's", {"what": "converse"})
                finally:
                    if dsfull is not dsb:
                        dsfull.close()
                ctx.checked()
                if oev and len(dso) != n:
                    viol("value", f"len(output)={len(dso)} but len(input)={n}", {"what": "len"})
        finally:
            with quiet():
                dso.close()
                ds0.close()
                if dsb is not ds0:
                    dsb.close()
                if dsu is not dsb:
                    dsu.close()
        return True

    # ---------------- tdms2rtdc ----------------
    def do_tdms(self, op):
        import dclab
        from dclab import cli
        ctx = self.ctx
        fx = TDMS_FIXTURES[op["fx"] % len(TDMS_FIXTURES)]
        self.counter += 1
        d = self.dir / f"tdms{self.counter:02d}"
        gen.unzip_fixture(fx, d)
        tin = [p for p in sorted(d.glob("*.tdms")) if not p.name.endswith("_traces.tdms")][0]
        out = self.newname("tdms")
        label = f"tdms2rtdc {fx} skip_initial={op['skip_i']} skip_final={op['skip_f']}"
        before = self.snapshot()
        res = self.run_tool(lambda: cli.tdms2rtdc(path_tdms=tin, path_rtdc=self.dir / out, skip_initial_empty_image=op["skip_i"],
                                                  skip_final_empty_image=op["skip_f"]),
                            "C08.tool.raises", {"what": "tdms2rtdc"}, label)
        ctx.state_ops += 1
        ctx.state("tdms2rtdc", fx, op["skip_i"], op["skip_f"], "-")
        self.check_unchanged(before, label)
        if res != "ok":
            ctx.log("t", label + " " + res)
            return
        ctx.probe("tdms_converted")
        with quiet():
            dsi = dclab.new_dataset(tin)
            with ctx.sut("C08.output.open", sig={"what": "open_tdms_output"}, fatal=False) as so:
                dso = dclab.new_dataset(self.dir / out)
            if so.exc is not None:
                dsi.close()
                return
            try:
                with ctx.sut("C08.tdms.compare", sig={"what": "raises"}, fatal=False):
                    feats = list(dsi.features_innate)
                    lengths = []
                    for f in feats:
                        if f == "trace":
                            lengths += [len(dsi["trace"][k]) for k in dsi["trace"].keys()]
                        else:
                            lengths.append(len(dsi[f]))
                    lmin = int(min(lengths))
                    keep = np.ones(lmin, dtype=bool)

                    def empty(i):
                        return (("contour" in feats and i < len(dsi["contour"]) and np.all(np.asarray(dsi["contour"][i]) == 0))
                                or ("image" in feats and np.all(np.asarray(dsi["image"][i]) == 0)))
                    if op["skip_i"] and lmin and empty(0):
                        keep[0] = False
                    if op["skip_f"] and "image" in feats and len(dsi) - 1 < lmin and np.all(np.asarray(dsi["image"][len(dsi) - 1]) == 0):
                        keep[len(dsi) - 1] = False
                    idx = np.flatnonzero(keep)
                    fout = list(dso.features_innate)
                    ctx.checked()
                    if sorted(fout) != sorted(feats):
                        ctx.violation("C08.tdms.features", f"{label}: output features {sorted(fout)} != tdms features {sorted(feats)}",
                                      sig={"what": "set"}, fatal=False)
                    ctx.checked()
                    if len(dso) != len(idx):
                        ctx.violation("C08.tdms.features", f"{label}: output has {len(dso)} events, expected {len(idx)} "
                                      f"(tdms {len(dsi)}, shortest feature {lmin})", sig={"what": "len"}, fatal=False)
                    else:
                        for f in feats:
                            if f not in fout:
                                continue
                            ctx.checked()
                            if f == "trace":
                                a = {k: np.asarray(dsi["trace"][k])[idx] for k in sorted(dsi["trace"].keys())}
                                b = {k: np.asarray(dso["trace"][k][:]) for k in sorted(dso["trace"].keys())}
                            elif f in ("contour", "mask", "image"):
                                a = [np.asarray(dsi[f][int(i)]) for i in idx]
                                b = [np.asarray(dso[f][j]) for j in range(len(idx))]
                            else:
                                a = np.asarray(dsi[f][:])[idx]
                                b = np.asarray(dso[f][:])
                            if not feat_equal(a, b):
                                what = "value"
                                if isinstance(a, np.ndarray) and a.dtype.kind == "i" and a.min() < 0 and b.dtype.kind == "u":
                                    what = "negative_to_unsigned"
                                ctx.violation("C08.tdms.features", f"{label}: feature {f} of the output differs from the tdms data "
                                              f"({getattr(a, 'dtype', '')} -> {getattr(b, 'dtype', '')})", sig={"what": what}, fatal=False)
            finally:
                dsi.close()
                dso.close()
        ctx.log("t", label + " -> " + out, self.summary(out))
        self.add_file(out, "tdms", "none", "plain", tools=["tdms2rtdc"])


def run(trace, ctx):
    seams.set_knob_chunk_bytes(trace["knobs"]["chunk_bytes"])
    w = World(trace, ctx)
    with warnings.catch_warnings():
        warnings.simplefilter("ignore")
        while True:
            op = ctx.next_op(w.gen_op, max_ops=trace.get("max_ops", 6))
            if op is None:
                break
            w.execute(op)
            ctx.clock.advance(ctx.rng("clock").choice([0, 0.5, 2, 61, 3600]))
    ctx.info["sample"] = {"knobs": trace["knobs"], "ops": (trace.get("ops") or [])[:6], "files": len(w.files)}


def simplify(trace):
    """candidate simplifications for the minimiser: no second application, default options, smaller files, no basins"""
    ops = trace.get("ops") or []
    for i, op in enumerate(ops):
        cands = []
        if op.get("k") == "tool":
            if op.get("again"):
                cands.append(dict(op, again=False))
            if any(op.get("opts", {}).values()) and op["tool"] == "repack":
                cands.append(dict(op, opts={"strip_logs": False, "strip_basins": False}))
        elif op.get("k") in ("model", "layout"):
            if op.get("n", 3) > 3:
                cands.append(dict(op, n=3))
            if op.get("basin", "none") != "none":
                cands.append(dict(op, basin="none"))
            if op.get("special", "none") != "none":
                cands.append(dict(op, special="none"))
        for c in cands:
            t = dict(trace)
            t["ops"] = ops[:i] + [c] + ops[i + 1:]
            yield t
