"""C04 — a hierarchy child is exactly the filtered view of its parent.

World B, multi-actor: one owner per hierarchy level (root + up to 4 children)
whose operations are interleaved by the seeded scheduler; a refresh of the
youngest member is the synchronisation point after which the oracle runs."""
import warnings

import numpy as np

from dst import seeds

NAME = "C04"
PROPERTY = "C04"
LEVEL = "exploration"
RULE = ("one evaluation = one seeded interleaving (<= 50 operations) of per-level actors over a hierarchy of depth 1..4 on a "
        "root of <= 120 events (dict- or file-backed; scalar, image, mask, contour, trace, computed and temporary features): "
        "filter edits (ranges, polygons) on any level, manual exclusions on any level, reads without refresh (populating child "
        "caches), temporary-feature assignment on any level, configuration changes on the root, creation of deeper children, "
        "applies on the root, and refreshes of the youngest member; after each such refresh every level is compared with its "
        "parent restricted to the parent's selection and the manual-exclusion invariant is checked against the model's "
        "per-child sets of excluded root events. non-trivial = >=1 edit and >=1 comparison; distinct = distinct event-log digests")
STATE_MEASURE = "distinct (depth, bitmask of levels edited since last refresh, hidden-exclusion count>0, cache-populated bitmask) tuples; actor sequences are part of the digest"
PROBES = ["read_retried_after_transient_fault", "temporary_feature_initialised_from_other_dataset", "other_hierarchy_with_other_traces_before", "level_filter_reset", "same_exclusion_reentered", "nonscalar_index_array_access", "index_array_refused_like_parent", "hidden_exclusion_came_back", "hidden_exclusion_present", "cache_populated_before_refresh", "temp_feature_on_child",
          "temp_feature_on_root", "root_config_changed", "depth_3_or_more", "manual_on_mid_level", "ancestor_filter_changed_after_manual",
          "child_created_mid_history", "root_apply_without_refresh", "empty_child", "file_backed", "root_selection_moved_same_count"]
COMPONENTS = {"real": ["dclab RTDC_Hierarchy, HierarchyFilter, index mappers, Child* feature wrappers", "dclab Filter, temporary features, ancillary features (time, area_um, deform)"],
              "stub": ["thread of control of the per-level owners (cooperative actors chosen by the seeded scheduler)", "wall clock", "identity sources"]}
ASSUMPTIONS = [
    "manual edits are exclusions only (the statement says nothing about re-inclusion)",
    "operations that index a child by position (manual edits, temporary-feature assignment) are issued only when that child is synchronised with its ancestors",
    "reads on children are judged after a refresh of the youngest member only (children document that they keep what they have until rejuvenate())",
]

RANGE_FEATS = ["area_cvx", "pos_x", "bright_avg", "circ"]


def plan(tier):
    if tier == "quick":
        return {"runs": 1500, "budget_s": 45, "run_timeout_s": 120, "det_pairs": 3}
    return {"runs": 200000, "budget_s": 780, "run_timeout_s": 180, "det_pairs": 3}


def make_trace(seed, tier):
    r = seeds.rng(seed, "plan")
    return {"knobs": {"n": r.choice([3, 12, 40, 120]), "depth0": r.choice([1, 1, 2, 3]), "backing": r.choice(["dict", "dict", "file", "dict", "file"]),
                      "nonscalar": r.random() < 0.6},
            "max_ops": r.choice([10, 25, 50]), "ops": None}


def make_root_data(seed, n, nonscalar):
    rs = seeds.np_rng(seed, "root")
    d = {
        "area_cvx": rs.uniform(50, 500, size=n),
        "area_msd": rs.uniform(50, 500, size=n),
        "circ": rs.uniform(0.6, 1.0, size=n),
        "pos_x": rs.uniform(0, 100, size=n),
        "bright_avg": rs.uniform(50, 150, size=n),
        "frame": np.cumsum(rs.integers(1, 20, size=n)).astype(np.float64),
    }
    d["bright_avg"][rs.random(n) < 0.1] = np.nan
    if nonscalar:
        d["image"] = rs.integers(0, 255, size=(n, 5, 7)).astype(np.uint8)
        d["mask"] = rs.random((n, 5, 7)) < 0.5
        d["contour"] = [rs.integers(0, 7, size=(int(rs.integers(3, 7)), 2)) for _ in range(n)]
        d["trace"] = {"fl1_raw": rs.integers(-100, 100, size=(n, 9)).astype(np.int16),
                      "fl2_median": rs.integers(-100, 100, size=(n, 9)).astype(np.int16)}
    return d


class World:
    def __init__(self, trace, ctx):
        import dclab
        self.ctx = ctx
        k = trace["knobs"]
        self.n = k["n"]
        self.data = make_root_data(ctx.seed, self.n, k["nonscalar"])
        dclab.register_temporary_feature("tmp_c04")
        if k["nonscalar"] and seeds.H(ctx.seed, "other-hierarchy") % 3 == 0:
            # another measurement with other fluorescence traces was gated in this session before
            rs0 = seeds.np_rng(ctx.seed, "other-hierarchy")
            other = dclab.new_dataset({"deform": rs0.uniform(0.01, 0.2, size=6), "area_um": rs0.uniform(20, 200, size=6),
                                       "trace": {"fl3_raw": rs0.integers(-100, 100, size=(6, 9)).astype(np.int16)}})
            other.filter.manual[0] = False
            other.apply_filter()
            och = dclab.new_dataset(other)
            och.apply_filter()
            np.asarray(och["trace"]["fl3_raw"][:])
            self.other_hierarchy = (other, och)
            ctx.probe("other_hierarchy_with_other_traces_before")
        if k["backing"] == "file":
            from dclab.rtdc_dataset.writer import RTDCWriter
            p = ctx.scratch / "root.rtdc"
            with RTDCWriter(p, mode="reset") as hw:
                hw.store_metadata({"setup": {"software version": "ShapeIn 2.2.2.4"}, "experiment": {"sample": "s", "run index": 1},
                                   "imaging": {"pixel size": 0.34, "frame rate": 2000.0}})
                for f, v in self.data.items():
                    hw.store_feature(f, v)
            root = dclab.new_dataset(p)
            ctx.probe("file_backed")
            from dst import faultfs
            self.rseam = faultfs.ReadFaultSeam().install()
        else:
            root = dclab.new_dataset({f: (v.copy() if isinstance(v, np.ndarray) else v) for f, v in self.data.items()})
            root.config["imaging"]["pixel size"] = 0.34
            root.config["imaging"]["frame rate"] = 2000.0
        self.twin = None
        if k["backing"] != "file" and seeds.H(ctx.seed, "twin-temp") % 3 == 0:
            # another measurement of the same length; this root's temporary feature is initialised from the other one's
            rs1 = seeds.np_rng(ctx.seed, "twin-temp")
            twin = dclab.new_dataset({"deform": rs1.uniform(0.01, 0.2, size=self.n), "area_um": rs1.uniform(20, 200, size=self.n)})
            arr = rs1.uniform(0, 1, size=self.n)
            dclab.set_temporary_feature(twin, "tmp_c04", arr)
            dclab.set_temporary_feature(root, "tmp_c04", twin["tmp_c04"])
            self.data["tmp_c04"] = arr.copy()
            self.twin = (twin, arr.copy())
            ctx.probe("temporary_feature_initialised_from_other_dataset")
        self.levels = [root]
        self.excl = [set()]          # per level: root ids manually excluded by its owner (level 0 unused)
        self.synced = True           # every level consistent with its ancestors
        self.edited = 0              # bitmask of levels edited since the last refresh
        self.cached = 0              # bitmask of levels whose caches were populated since the last refresh
        self.polys = {}
        self.pending_manual = 0      # bitmask of levels with manual edits since their last refresh
        self.stale_manual = False
        self.ever_hidden = set()
        for _ in range(k["depth0"]):
            self.add_child()
        self.refresh_and_check("init")

    def add_child(self):
        import dclab
        with self.ctx.sut("C04.new_child"):
            ch = dclab.new_dataset(self.levels[-1])
        self.levels.append(ch)
        self.excl.append(set())

    @property
    def depth(self):
        return len(self.levels) - 1

    # ---------------- model helpers ----------------
    def root_ids(self, j):
        """root indices of the events of level j according to the current filter arrays"""
        ids = np.arange(self.n)
        for i in range(1, j + 1):
            ids = ids[np.array(self.levels[i - 1].filter.all, dtype=bool)]
        return ids

    # ---------------- generation ----------------
    def gen_op(self, r):
        redo = getattr(self, "redo_manual", None)
        self.redo_manual = None
        if redo is not None and redo[0] < len(self.levels) and r.random() < 0.75:
            # right after reset_filter() the owner excludes exactly the same events again
            return {"k": "manual", "lv": redo[0], "idx": list(redo[1])}
        lv = r.randrange(len(self.levels))           # the scheduler picks which owner acts
        x = r.random()
        if x < 0.04 and getattr(self, "last_manual", {}):
            lvr = r.choice(sorted(self.last_manual))
            return {"k": "reset", "lv": lvr}
        if x < 0.20:
            f = r.choice(RANGE_FEATS)
            v = self.data[f]
            lo = float(np.nanmin(v)) + r.uniform(-0.1, 0.6) * float(np.nanmax(v) - np.nanmin(v))
            hi = lo + r.uniform(0.0, 0.8) * float(np.nanmax(v) - np.nanmin(v))
            return {"k": "range", "lv": lv, "feat": f, "lo": lo, "hi": hi}
        if x < 0.26:
            return {"k": "rm_range", "lv": lv, "feat": r.choice(RANGE_FEATS)}
        if x < 0.32:
            return {"k": "poly", "lv": lv, "dseed": r.randrange(1 << 30), "inverted": r.random() < 0.3}
        if x < 0.40:
            cnt = r.choice([1, 1, 2, 4])
            return {"k": "manual", "lv": lv, "idx": [r.randrange(1 << 20) for _ in range(cnt)]}
        if x < 0.46:
            # the root selects other events, but equally many (a plain dataset: re-inclusion is ordinary there)
            return {"k": "rootswap", "a": r.randrange(1 << 20), "b": r.randrange(1 << 20)}
        if x < 0.55 and getattr(self, "rseam", None) is not None:
            # a transient read fault of the backing file inside a read through a child, then the caller reads again
            return {"k": "faultread", "lv": lv, "feat": r.choice(["area_cvx", "bright_avg", "frame", "area_um", "deform", "image", "mask"]),
                    "at": r.choice([0, 0, 0, 1, 1, 2, 3, 5]), "kind": r.choice(["err", "err", "intr"])}
        if x < 0.58:
            return {"k": "read", "lv": lv, "feat": r.choice(["area_cvx", "bright_avg", "time", "area_um", "deform", "image", "mask", "contour", "trace", "tmp_c04", "index"])}
        if x < 0.64:
            return {"k": "temp", "lv": lv, "dseed": r.randrange(1 << 30)}
        if x < 0.69:
            return {"k": "rootcfg", "key": r.choice(["pixel size", "frame rate"]), "val": r.choice([0.2, 0.34, 0.5, 1000.0, 2000.0, 3000.0])}
        if x < 0.73:
            return {"k": "newchild"}
        if x < 0.76:
            # a direct apply on an ancestor (not among the operations the property quantifies over,
            # exercised because it holds on the repaired tree)
            return {"k": "rootapply", "lv": r.randrange(len(self.levels))}
        return {"k": "refresh"}

    # ---------------- execution ----------------
    def execute(self, op):
        ctx = self.ctx
        k = op["k"]
        lv = op.get("lv", 0) % len(self.levels)
        ds = self.levels[lv]
        if k == "range":
            ds.config["filtering"][op["feat"] + " min"] = op["lo"]
            ds.config["filtering"][op["feat"] + " max"] = op["hi"]
            self.edited |= 1 << lv
            ctx.log(f"L{lv}", f"range {op['feat']}", seeds.short_hash([op["lo"], op["hi"]]))
        elif k == "rm_range":
            cfg = ds.config["filtering"]
            if op["feat"] + " min" not in cfg:
                return
            cfg.pop(op["feat"] + " min")
            cfg.pop(op["feat"] + " max")
            self.edited |= 1 << lv
            ctx.log(f"L{lv}", f"rm_range {op['feat']}")
        elif k == "poly":
            import dclab
            rs = seeds.np_rng(op["dseed"], "poly")
            pts = np.column_stack([rs.uniform(0, 550, size=5), rs.uniform(-10, 110, size=5)])
            if lv in self.polys:
                pf = self.polys[lv]
                pf.points = pts
                pf.inverted = bool(op["inverted"])
            else:
                pf = dclab.PolygonFilter(axes=("area_cvx", "pos_x"), points=pts, inverted=bool(op["inverted"]))
                ds.polygon_filter_add(pf)
                self.polys[lv] = pf
            self.edited |= 1 << lv
            ctx.log(f"L{lv}", "poly", seeds.short_hash(pts))
        elif k == "reset":
            if lv != self.depth or lv == 0:
                # (only the youngest child: a reset re-creates the level's filter arrays at once, without an apply; for the
                #  levels below, positions would be undefined until the next refresh)
                return
            with ctx.sut("C04.reset_filter", sig={"level": min(lv, 2)}):
                ds.reset_filter()
            if lv >= 1:
                self.excl[lv] = set()
            self.polys.pop(lv, None)
            self.edited |= 1 << lv
            lm = getattr(self, "last_manual", {})
            if lv in lm and self.synced:
                self.redo_manual = (lv, lm[lv])
            ctx.probe("level_filter_reset")
            ctx.log(f"L{lv}", "reset")
        elif k == "manual":
            # positions refer to the level's current events: only when it is synchronised with its ancestors
            if not self.synced or len(ds) == 0:
                return
            if not hasattr(self, "last_manual"):
                self.last_manual = {}
            if self.last_manual.get(lv) == list(op["idx"]):
                ctx.probe("same_exclusion_reentered")
            self.last_manual[lv] = list(op["idx"])
            n_l = len(ds)
            idx = sorted({i % n_l for i in op["idx"]})
            ds.filter.manual[idx] = False
            if lv >= 1:
                rid = self.root_ids(lv)
                self.excl[lv] |= {int(rid[i]) for i in idx}
                if lv < self.depth:
                    ctx.probe("manual_on_mid_level")
            self.edited |= 1 << lv
            self.pending_manual |= 1 << lv
            ctx.log(f"L{lv}", "manual", seeds.short_hash(idx))
        elif k == "rootswap":
            root = self.levels[0]
            man = np.array(root.filter.manual, dtype=bool)
            inc, exc = np.flatnonzero(man), np.flatnonzero(~man)
            if len(inc) == 0:
                return
            if len(exc) == 0:
                root.filter.manual[int(inc[op["a"] % len(inc)])] = False
            else:
                root.filter.manual[int(inc[op["a"] % len(inc)])] = False
                root.filter.manual[int(exc[op["b"] % len(exc)])] = True
                ctx.probe("root_selection_moved_same_count")
            self.edited |= 1
            ctx.log("L0", "rootswap")
        elif k == "read":
            f = op["feat"]
            with warnings.catch_warnings():
                warnings.simplefilter("ignore")
                try:
                    if f in ds:
                        obj = ds[f]
                        if f == "trace":
                            for tn in sorted(obj.keys()):
                                obj[tn][0:1] if len(ds) else None
                        elif f == "contour":
                            obj[0] if len(ds) else None
                        else:
                            obj[:] if len(ds) else None
                        if lv >= 1 and not self.synced:
                            ctx.probe("cache_populated_before_refresh")
                        self.cached |= 1 << lv
                except Exception:
                    # reads between refreshes may legitimately fail or return stale data (not judged)
                    pass
            ctx.log(f"L{lv}", f"read {f}")
            return
        elif k == "temp":
            import dclab
            if not self.synced:
                return
            n_l = len(ds)
            if n_l == 0:
                return
            vals = seeds.np_rng(op["dseed"], "tmp").uniform(0, 1, size=n_l)
            rid_before = self.root_ids(lv) if lv >= 1 else np.arange(self.n)
            pending_deeper_manual = bool(self.pending_manual & ~((1 << (lv + 1)) - 1))
            with warnings.catch_warnings():
                warnings.simplefilter("ignore")
                with ctx.sut("C04.set_temporary_feature", sig={"level": min(lv, 2)}):
                    dclab.set_temporary_feature(ds, "tmp_c04", vals)
            ctx.probe("temp_feature_on_child" if lv >= 1 else "temp_feature_on_root")
            # documented: events of the root that are not part of the child get NaN
            rootvals = np.full(self.n, np.nan)
            rootvals[rid_before] = vals
            if lv >= 1 and lv < self.depth and pending_deeper_manual and (self.edited & ((1 << (lv + 1)) - 1)):
                # the assignment re-applied the filters of levels <= lv while a deeper level had
                # manual edits that it had not yet translated to root indices
                self.stale_manual = True
            self.data["tmp_c04"] = rootvals
            if lv >= 1 and lv < self.depth:
                self.synced = False     # set_temporary_feature rejuvenated level lv only
            if self.edited:
                self.synced = False
            ctx.log(f"L{lv}", "temp", seeds.short_hash(vals))
        elif k == "rootcfg":
            self.levels[0].config["imaging"][op["key"]] = op["val"]
            ctx.probe("root_config_changed")
            self.edited |= 1
            ctx.log("L0", f"cfg {op['key']}={op['val']}")
        elif k == "newchild":
            if self.depth >= 4:
                return
            # a new child applies the filters of all its ancestors when it is created
            self.add_child()
            ctx.probe("child_created_mid_history")
            ctx.log("sched", "newchild", self.depth)
            self.after_partial_apply()
            return
        elif k == "rootapply":
            with warnings.catch_warnings():
                warnings.simplefilter("ignore")
                with ctx.sut("C04.root_apply"):
                    ds.apply_filter()
            if lv < self.depth:
                self.synced = False
            ctx.probe("root_apply_without_refresh")
            ctx.log("L0", "apply")
        elif k == "refresh":
            self.refresh_and_check("refresh")
            return
        elif k == "faultread":
            self.do_faultread(op, max(1, lv) if self.depth >= 1 else 0)
            return
        ctx.state_ops += 1

    def do_faultread(self, op, lv):
        """The backing file fails once (OSError / interrupt) somewhere inside a read through a child; the caller reads
        again.  The retry may fail, but whatever it returns must be the parent's selected events (no refresh in between:
        state left behind by the failed read is what is judged)."""
        ctx = self.ctx
        seam = getattr(self, "rseam", None)
        if seam is None or lv < 1:
            return
        self.refresh_and_check("before faultread")
        ch, par = self.levels[lv], self.levels[lv - 1]
        f = op["feat"]
        if f not in par or len(ch) == 0:
            return
        # the root's scalar features are cold again, as right after opening the file (the fault model is a failing *file* read;
        # RTDC_HDF5 keeps every scalar feature in memory after its first read, and the refresh above has read them all)
        with warnings.catch_warnings():
            warnings.simplefilter("ignore")
            with ctx.sut("C04.rejuvenate", sig={"depth": min(self.depth, 3), "stale_manual": False}):
                self.levels[-1].rejuvenate()      # (the comparison above has filled the children's caches: drop them again)
        for ev in list(getattr(getattr(self.levels[0], "_events", None), "_cached_events", {}).values()):
            if getattr(ev, "_array", None) is not None and hasattr(ev, "h5ds"):
                ev._array = None
        seam.arm(op["at"], op["kind"])
        raised = None
        try:
            with warnings.catch_warnings():
                warnings.simplefilter("ignore")
                np.asarray(ch[f][:])
        except BaseException as e:  # noqa: B036 (KeyboardInterrupt is one of the injected kinds)
            if isinstance(e, (SystemExit,)) or type(e).__name__ == "StopRun":
                seam.disarm()
                raise
            raised = e
        fired = seam.disarm()
        ctx.log(f"L{lv}", f"faultread {f}", f"fired={fired} raised={type(raised).__name__ if raised is not None else None}")
        if raised is not None and not fired:
            ctx.violation("C04.feature.read", f"level {lv}: reading {f} raised {type(raised).__name__}: {raised}", sig={"feat": f, "level": min(lv, 2)})
        if not fired:
            return
        ctx.fault("read_" + op["kind"])
        ctx.probe("read_retried_after_transient_fault")
        if raised is None:
            ctx.probe("transient_fault_swallowed")
        for j in range(1, len(self.levels)):
            p_, c_ = self.levels[j - 1], self.levels[j]
            idx = np.flatnonzero(np.array(p_.filter.all, dtype=bool))
            for g in ["area_cvx", "bright_avg", "frame", "area_um", "deform", "image", "mask"]:
                if g not in p_ or (len(idx) == 0 and g in ("image", "mask")):
                    continue
                try:
                    with warnings.catch_warnings():
                        warnings.simplefilter("ignore")
                        got = np.asarray(c_[g][:])
                        exp = np.asarray(p_[g][:])[idx]
                except Exception:
                    ctx.probe("retry_raised")
                    continue
                ctx.checked()
                if got.shape != exp.shape or not np.array_equal(got, exp, equal_nan=exp.dtype.kind == "f"):
                    ctx.violation("C04.feature.value", f"level {j}: after a read of {f} through level {lv} failed once ({op['kind']}) the retry "
                                                       f"returns data for {g} that differ from the parent's selected events",
                                  sig={"feat": g if g in ("image", "mask") else "scalar", "level": min(j, 2), "after_failed_read": True})

    def after_partial_apply(self):
        # constructing a child on the youngest applied the whole chain: equivalent to a refresh
        self.refresh_and_check("newchild")

    # ---------------- oracle ----------------
    def refresh_and_check(self, why):
        ctx = self.ctx
        young = self.levels[-1]
        with warnings.catch_warnings():
            warnings.simplefilter("ignore")
            with ctx.sut("C04.rejuvenate", sig={"depth": min(self.depth, 3), "stale_manual": self.stale_manual}):
                if self.depth >= 1:
                    young.rejuvenate()
                else:
                    young.apply_filter()
        hidden_now = 0
        if self.depth >= 3:
            ctx.probe("depth_3_or_more")
        for j in range(1, len(self.levels)):
            par, ch = self.levels[j - 1], self.levels[j]
            sel = np.array(par.filter.all, dtype=bool)
            ctx.checked()
            if len(ch) != int(sel.sum()):
                ctx.violation("C04.length", f"level {j}: len(child)={len(ch)} but the parent's filter selects {int(sel.sum())}",
                              sig={"level": min(j, 2)})
            if len(ch) == 0:
                ctx.probe("empty_child")
            with warnings.catch_warnings():
                warnings.simplefilter("ignore")
                self.compare_features(j, par, ch, sel)
            # manual exclusions: visible events are excluded exactly if their root id was excluded by this level's owner
            rid = self.root_ids(j)
            man = np.array(ch.filter.manual, dtype=bool)
            ctx.checked()
            if len(man) != len(rid):
                ctx.violation("C04.manual.size", f"level {j}: manual array has {len(man)} entries for {len(rid)} events", sig={"level": min(j, 2)})
            exp = np.array([int(r_) not in self.excl[j] for r_ in rid], dtype=bool)
            vis = {int(r_) for r_ in rid}
            hidden = self.excl[j] - vis
            back = (self.excl[j] & vis) & {h for (lvl, h) in self.ever_hidden if lvl == j}
            if back:
                ctx.probe("hidden_exclusion_came_back")
            if hidden:
                hidden_now += 1
                ctx.probe("hidden_exclusion_present")
                self.ever_hidden |= {(j, h) for h in hidden}
            if self.excl[j] and (self.edited & ((1 << j) - 1)):
                ctx.probe("ancestor_filter_changed_after_manual")
            if not np.array_equal(man, exp):
                bad = np.flatnonzero(man != exp)[:6].tolist()
                ctx.violation("C04.manual", f"level {j}: manual flags of events {bad} (root ids {rid[bad].tolist()}) are {man[bad].tolist()}, "
                                            f"expected {exp[bad].tolist()}; excluded root ids of this level: {sorted(self.excl[j])[:12]}",
                              sig={"level": min(j, 2), "came_back": bool(back), "stale_manual": self.stale_manual})
        if self.twin is not None:
            # the other measurement keeps what was assigned to it
            ctx.checked()
            if not np.array_equal(np.asarray(self.twin[0]["tmp_c04"][:]), self.twin[1], equal_nan=True):
                ctx.violation("C04.temp.other_dataset", "the temporary feature of another dataset (from which this root's feature was "
                                                        "initialised) changed when the feature was assigned on a child here",
                              sig={"feat": "tmp_c04"})
        ctx.state(self.depth, self.edited, hidden_now > 0, self.cached)
        ctx.log("sched", f"refresh {why}", seeds.short_hash([np.array(l.filter.all) for l in self.levels]))
        self.synced = True
        self.edited = 0
        self.cached = 0
        self.pending_manual = 0
        self.stale_manual = False

    def compare_features(self, j, par, ch, sel):
        ctx = self.ctx
        idx = np.flatnonzero(sel)
        feats = [f for f in ["area_cvx", "bright_avg", "frame", "time", "area_um", "deform", "area_ratio", "index",
                             "image", "mask", "contour", "trace", "tmp_c04"] if f in par]
        for f in feats:
            ctx.checked()
            sig = {"feat": f if f in ("image", "mask", "contour", "trace", "tmp_c04", "index") else "scalar", "level": min(j, 2)}
            if f not in ch:
                ctx.violation("C04.feature.missing", f"level {j}: feature {f} of the parent is not in the child", sig=sig)
            with ctx.sut("C04.feature.read", sig=sig):
                if f == "index":
                    got = np.asarray(ch[f][:])
                    exp = np.arange(1, len(idx) + 1)
                elif f == "contour":
                    got = [np.asarray(ch["contour"][i]) for i in range(len(idx))]
                    exp = [np.asarray(par["contour"][int(i)]) for i in idx]
                    if len(got) != len(exp) or any(not np.array_equal(a, b) for a, b in zip(got, exp)):
                        ctx.violation("C04.feature.value", f"level {j}: contour differs from the parent's selected events", sig=sig)
                    continue
                elif f == "trace":
                    for tn in sorted(par["trace"].keys()):
                        got = np.asarray(ch["trace"][tn][:]) if len(idx) else np.zeros((0,))
                        exp = np.asarray(par["trace"][tn][:])[idx] if len(idx) else np.zeros((0,))
                        if not np.array_equal(got, exp):
                            ctx.violation("C04.feature.value", f"level {j}: trace {tn} differs from the parent's selected events", sig=sig)
                    continue
                else:
                    if len(idx) == 0 and f in ("image", "mask"):
                        continue
                    got = np.asarray(ch[f][:])
                    exp = np.asarray(par[f][:])[idx]
            if got.shape != exp.shape or not np.array_equal(got, exp, equal_nan=exp.dtype.kind == "f"):
                ctx.violation("C04.feature.value", f"level {j}: feature {f} differs from the parent's feature restricted to the selected events "
                                                   f"(shapes {got.shape} vs {exp.shape})", sig=sig)
            elif f in ("image", "mask") and len(idx) >= 3:
                # the same feature addressed with user-supplied index arrays (unsorted, repeated, ends fixed), masks and slices
                self.cmp_count = getattr(self, "cmp_count", 0) + 1
                pr = seeds.rng(seeds.H(ctx.seed, "index-access", self.cmp_count), "idx")
                m = len(idx)
                a0 = pr.randrange(0, m - 2)
                a1 = pr.randrange(a0 + 2, m)
                block = list(range(a0, a1 + 1))
                mid = block[1:-1]
                pr.shuffle(mid)
                choices = {"ends_fixed_perm": [block[0]] + mid + [block[-1]],
                           "repeats": sorted(pr.choice(block) for _ in range(len(block))),
                           "ends_fixed_repeats": [block[0]] + [pr.choice(block) for _ in range(max(0, len(block) - 2))] + [block[-1]],
                           "reversed": block[::-1],
                           "random": [pr.randrange(m) for _ in range(pr.randint(1, 6))]}
                how = pr.choice(sorted(choices))
                ii = np.array(choices[how], dtype=int)
                ctx.checked()
                # (h5py refuses unsorted/repeated index lists: where the parent itself refuses the corresponding access,
                #  the child may refuse too)
                try:
                    par[f][idx[ii]]
                    parent_refuses = False
                except TypeError:
                    parent_refuses = True
                with ctx.sut("C04.feature.read", sig=dict(sig, access=how), allow=(TypeError,) if parent_refuses else None) as s_:
                    got_i = np.asarray(ch[f][ii])
                if s_.exc is not None:
                    ctx.probe("index_array_refused_like_parent")
                    continue
                if got_i.shape != exp[ii].shape or not np.array_equal(got_i, exp[ii]):
                    ctx.violation("C04.feature.value", f"level {j}: {f}[{ii.tolist()}] ({how}) differs from the same selection of the child's events",
                                  sig=dict(sig, access=how))
                ctx.probe("nonscalar_index_array_access")
        # the root's own data against the generator's arrays for the features the model owns
        if j == 1:
            for f in ("tmp_c04",):
                if f in self.data and f in par:
                    ctx.checked()
                    if not np.array_equal(np.asarray(par[f][:]), self.data[f], equal_nan=True):
                        ctx.violation("C04.temp.root", "temporary feature on the root differs from the documented projection of the child's assignment",
                                      sig={"feat": "tmp_c04"})


def run(trace, ctx):
    w = World(trace, ctx)
    while True:
        op = ctx.next_op(w.gen_op, max_ops=trace.get("max_ops", 25))
        if op is None:
            break
        w.execute(op)
    w.refresh_and_check("final")
    ctx.info["sample"] = {"knobs": trace["knobs"], "ops": (trace.get("ops") or [])[:10], "depth": w.depth}
