"""C09 — split partitions a measurement, join concatenates measurements.

World A (real files on tmpfs), single actor.  A seeded actor creates
measurements with generated acquisition stamps (date, time with and without
fractional seconds, run index, frame rate) and differing feature sets, then
splits them, joins 2..5 of them in shuffled order and joins the parts of a
split again.  A reference model (the generator's own arrays, exact rational
arithmetic for the stamps) predicts every product; the time zone of the
process is an environment knob that the results must not depend on."""
import datetime
import warnings
from fractions import Fraction

import numpy as np

from dst import gen, seeds, seams

NAME = "C09"
PROPERTY = "C09"
LEVEL = "exploration"
RULE = ("one evaluation = one seeded history (<= 9 operations) over a population of .rtdc files: 'make' (1..40 events, "
        "per-file feature set = run base set minus dropped features (single, several, alphabetically consecutive) plus "
        "extras, acquisition date/time incl. fractional seconds, equal stamps, same-second stamps, midnight/month/year "
        "crossings, run index, frame rate, all-zero first/last image), 'split' (n in {1, divisor, non-divisor, N, >N}, "
        "skip flags), 'join' (2..5 inputs incl. earlier products, shuffled order), 'roundtrip' (split, then join of the "
        "parts in order); every product is compared with the reference model. non-trivial = at least one split or join "
        "product compared; distinct = distinct event-log digests (operation sequence + data hashes + results)")
STATE_MEASURE = ("distinct (operation, split-size class x skip flags | number of inputs x feature-set relation x stamp "
                 "relation x input kinds) tuples")
PROBES = ["split_one", "split_divisor", "split_nondivisor", "split_equal_n", "split_greater_n", "split_skip_initial_applied",
          "split_skip_final_applied", "split_multi_chunk_part", "join_shuffled", "join_tie_given_order",
          "join_fractional_offset", "join_same_second", "join_crosses_midnight", "join_feature_pruned",
          "join_adjacent_missing", "join_ancillary_input", "join_of_products", "join_5_inputs", "join_time_shifted",
          "join_frame_shifted", "join_logs_compared", "nonscalar_compared", "roundtrip_reproduced", "tz_not_utc",
          "input_restamped_after_join", "join_into_previously_used_path", "ragged_input", "ragged_split_judged", "split_rerun_after_interruption", "split_rerun_refused"]
COMPONENTS = {
    "real": ["dclab.cli.split", "dclab.cli.join", "dclab export.hdf5 / RTDCWriter", "dclab RTDC_HDF5 reader incl. ancillary "
             "features and basins", "time.strptime/mktime of the C library under the run's TZ", "h5py/HDF5 on tmpfs"],
    "stub": ["wall clock (virtual)", "uuid/random identifiers (seeded)", "dclab version string (0.99.0)"],
}
ASSUMPTIONS = [
    "'chronological order of acquisition' = order of (date + time incl. fraction, run index); equal keys keep the given order; "
    "run indices are 1..9 and stamps are zero-padded so that this order is also the order of the stamp strings, except "
    "for the deliberately generated pairs 'HH:MM:SS' / 'HH:MM:SS.ff' within one second",
    "'available in every input' = `feat in ds.features` of dclab for every input; judged: every written feature is available in "
    "every input, every feature innate in every input is written, written values are the concatenation",
    "values of a feature that an input only offers as ancillary feature are taken from dclab's own reading of that input",
    "time: |out - (in + offset)| <= 1e-6 s + 1e-12*|t| (the implementation forms offsets from float64 epoch seconds, resolution 2.4e-7 s); "
    "everything else exact (values, not dtypes)",
    "frame rates are multiples of 100 Hz and stamps multiples of 0.01 s, so offset*frame rate is an integer and rounding is unambiguous",
    "index_online is only required to be strictly increasing in a join product and is not compared in the round trip "
    "(join shifts it on purpose)",
    "trace data are compared for the trace names present in every input; a join of inputs with differing trace names is "
    "not used as input of later operations",
    "fixed-offset time zones only (no DST rules)",
    "the number of split parts is compared for non-empty parts only; a part emptied by the documented boundary skipping "
    "may be absent or empty",
]

SCALARS = ["area_cvx", "area_um", "bright_avg", "circ", "deform", "fl1_max", "frame", "index", "index_online",
           "pos_x", "temp", "time", "userdef1"]
NONSCALARS = ["contour", "image", "mask", "trace"]
POOL = sorted(SCALARS + NONSCALARS)
TRACE_NAMES = ["fl1_median", "fl1_raw", "fl2_median", "fl2_raw"]
TZS = ["UTC", "UTC", "UTC-3", "UTC+5:30", "UTC-12", "UTC+11", "UTC-5:45", "UTC+9:30", "UTC-1"]
BASES = ["2020-03-04 10:11:12", "2019-12-31 23:59:57", "2020-02-28 23:59:58", "2024-02-29 12:00:00",
         "2021-06-30 23:58:59", "2022-10-30 01:59:58", "2023-03-26 01:30:00", "2020-01-01 00:00:00"]
FRAME_RATES = [2000.0, 2000.0, 3000.0, 1500.0, 100.0]
CHUNK_KNOBS = [1024 ** 2, 1024 ** 2, 640, 960, 2960]
MAX_PARTS = 8
MAX_JOIN_EVENTS = 320
#: generate 'HH:MM:SS' and 'HH:MM:SS.ff' stamps inside one second in the same run (string order != chronological order)
MIXED_TIME_FORMATS = True
#: compare index_online in the round trip as well (join shifts it, so this is off; see ASSUMPTIONS)
JUDGE_INDEX_ONLINE_ROUNDTRIP = False


def plan(tier):
    if tier == "quick":
        return {"runs": 600, "budget_s": 46, "run_timeout_s": 180, "det_pairs": 3}
    return {"runs": 30000, "budget_s": 780, "run_timeout_s": 240, "det_pairs": 3}


def make_trace(seed, tier):
    r = seeds.rng(seed, "plan")
    nbase = r.choice([4, 6, 8, 10, 13, 17])
    base = sorted(r.sample(POOL, nbase))
    if not any(f in SCALARS and f != "index" for f in base):
        base = sorted(base + [r.choice(["area_um", "deform", "frame", "pos_x"])])
    fmts = ["plain", "frac", "frac", "mixed"] if MIXED_TIME_FORMATS else ["plain", "frac", "frac"]
    return {
        "knobs": {"tz": r.choice(TZS), "chunk_bytes": r.choice(CHUNK_KNOBS), "tfmt": r.choice(fmts),
                  "base_dt": r.choice(BASES), "trace_names_vary": r.random() < 0.15},
        "base": base,
        "max_ops": r.choice([4, 6, 9]),
        "ops": None,
    }


# -----------------------------------------------------------------------------------
# stamps (exact arithmetic, independent of the process time zone)
# -----------------------------------------------------------------------------------

def stamp_seconds(date, tm):
    """Seconds since an arbitrary fixed origin as an exact Fraction."""
    y, mo, d = (int(x) for x in date.split("-"))
    days = datetime.date(y, mo, d).toordinal()
    sec = days * 86400 + int(tm[0:2]) * 3600 + int(tm[3:5]) * 60 + int(tm[6:8])
    frac = Fraction("0" + tm[8:]) if len(tm) > 8 else Fraction(0)
    return Fraction(sec) + frac


def stamp_strings(base_dt, delta_cs, frac):
    """(date, time) strings for base + delta (delta in hundredths of a second)."""
    b = datetime.datetime.strptime(base_dt, "%Y-%m-%d %H:%M:%S")
    t = b + datetime.timedelta(seconds=delta_cs // 100)
    cs = delta_cs % 100
    tm = t.strftime("%H:%M:%S")
    if frac:
        tm += ".%02d" % cs
    return t.strftime("%Y-%m-%d"), tm


# -----------------------------------------------------------------------------------
# generic feature data helpers
# -----------------------------------------------------------------------------------

def read_feat(ds, f):
    if f == "contour":
        c = ds["contour"]
        return [np.asarray(c[i]) for i in range(len(c))]
    if f == "trace":
        t = ds["trace"]
        return {k: np.asarray(t[k][:]) for k in sorted(t.keys())}
    return np.asarray(ds[f][:])


def vlen(v):
    if isinstance(v, dict):
        ls = sorted({len(a) for a in v.values()})
        return ls[0] if len(ls) == 1 else -1
    return len(v)


def sel(v, idx):
    if isinstance(v, list):
        return [v[i] for i in idx]
    if isinstance(v, dict):
        return {k: a[idx] for k, a in v.items()}
    return v[idx]


def cat(vals):
    v0 = vals[0]
    if isinstance(v0, list):
        return [c for v in vals for c in v]
    if isinstance(v0, dict):
        names = set(v0)
        for v in vals[1:]:
            names &= set(v)
        return {k: np.concatenate([v[k] for v in vals]) for k in sorted(names)}
    return np.concatenate([np.asarray(v) for v in vals])


def arr_eq(a, b):
    a, b = np.asarray(a), np.asarray(b)
    if a.shape != b.shape:
        return False
    if a.dtype.kind == "f" and b.dtype.kind == "f":
        return bool(np.array_equal(a, b, equal_nan=True))
    return bool(np.array_equal(a, b))


def same(got, exp):
    """exact equality of feature data; for traces: every expected name present and equal"""
    if isinstance(exp, list):
        return isinstance(got, list) and len(got) == len(exp) and all(arr_eq(x, y) for x, y in zip(got, exp))
    if isinstance(exp, dict):
        return isinstance(got, dict) and all(k in got and arr_eq(got[k], exp[k]) for k in exp)
    if isinstance(got, (list, dict)):
        return False
    return arr_eq(got, exp)


def first_diff(got, exp):
    try:
        if isinstance(exp, list):
            if len(got) != len(exp):
                return f"{len(got)} events instead of {len(exp)}"
            return "event %d" % next(i for i, (x, y) in enumerate(zip(got, exp)) if not arr_eq(x, y))
        if isinstance(exp, dict):
            for k in exp:
                if k not in got:
                    return f"trace {k} missing"
                if not arr_eq(got[k], exp[k]):
                    return f"trace {k}: " + first_diff(got[k], exp[k])
            return "?"
        got, exp = np.asarray(got), np.asarray(exp)
        if got.shape != exp.shape:
            return f"shape {got.shape} instead of {exp.shape}"
        ne = ~((got == exp) | ((got != got) & (exp != exp)))
        i = int(np.flatnonzero(ne.reshape(len(exp), -1).any(axis=1))[0])
        return f"event {i}: {np.ravel(got[i])[:4]} instead of {np.ravel(exp[i])[:4]}"
    except Exception:
        return "?"


def fkind(f):
    return f if f in NONSCALARS or f in ("time", "frame", "index", "index_online") else "scalar"


# -----------------------------------------------------------------------------------
# the world
# -----------------------------------------------------------------------------------

class World:
    def __init__(self, trace, ctx):
        self.t, self.ctx = trace, ctx
        self.knobs = trace["knobs"]
        self.base = list(trace["base"])
        self.dir = ctx.scratch
        self.files = []
        self.counter = 0

    def newname(self, tag):
        self.counter += 1
        return f"f{self.counter:02d}{tag}"

    # ---------------- generation ----------------
    def gen_op(self, r):
        usable_split = [i for i, f in enumerate(self.files) if not f["tainted"]]
        usable = [i for i in usable_split if not self.files[i].get("ragged")]
        nmade = sum(1 for f in self.files if f["kind"] == "made")
        if len(usable) < 2 or (nmade < 6 and r.random() < 0.3):
            return self.gen_make(r)
        if any(f["kind"].startswith("join") for f in self.files) and r.random() < 0.12:
            # the acquisition stamp of a file that may already have been joined is corrected in place
            date, tm, run = self.gen_stamp(r)
            return {"k": "restamp", "src": r.choice(usable), "date": date, "time": tm, "run": run}
        x = r.random()
        if x < 0.27:
            i = r.choice(usable_split)
            N = self.files[i]["n"]
            op = {"k": "split", "src": i, "n": pick_split_n(r, N), "skip_i": r.random() < 0.5, "skip_f": r.random() < 0.5}
            if r.random() < 0.15 and -(-N // op["n"]) >= 3:
                # the first attempt is interrupted by an I/O error when it starts on part m; then split runs again
                op["interrupt"] = r.randint(2, min(4, -(-N // op["n"])))
            return op
        if x < 0.45:
            i = r.choice(usable)
            N = self.files[i]["n"]
            k = r.choice([2, 2, 3, 4, 5])
            skip = r.random() < 0.3
            return {"k": "roundtrip", "src": i, "n": max(1, -(-N // k)), "skip_i": skip, "skip_f": skip and r.random() < 0.7}
        k = r.randint(2, min(5, len(usable)))
        return {"k": "join", "srcs": r.sample(usable, k)}

    def gen_feats(self, r):
        base = list(self.base)
        mode = r.choice(["all", "all", "drop", "drop", "run", "run", "run"])
        feats = list(base)
        if mode == "drop" and len(base) > 1:
            for f in r.sample(base, min(len(base) - 1, r.randint(1, 3))):
                feats.remove(f)
        elif mode == "run" and len(base) > 2:
            ln = r.choice([2, 2, 3])
            a = r.randrange(0, max(1, len(base) - ln + 1))
            for f in base[a:a + ln]:
                feats.remove(f)
        # features that make a dropped one computable for this file only
        helpers = {"area_um": ["area_cvx"], "deform": ["circ"], "time": ["frame"], "contour": ["mask"], "bright_avg": ["image", "mask"]}
        for f, need in sorted(helpers.items()):
            if f in base and f not in feats and r.random() < 0.45:
                feats += [x for x in need if x not in feats]
        if r.random() < 0.3:
            feats += [x for x in r.sample(POOL, r.randint(1, 2)) if x not in feats]
        if not any(f in SCALARS and f != "index" for f in feats):
            feats.append(r.choice(["area_um", "deform", "pos_x", "frame"]))
        return sorted(set(feats))

    def gen_stamp(self, r):
        tf = self.knobs["tfmt"]
        frac = {"plain": False, "frac": True}.get(tf)
        if frac is None:
            frac = r.random() < 0.5
        made = [f for f in self.files if f["kind"] == "made"]
        x = r.random()
        if made and x < 0.22:
            o = r.choice(made)       # an equal stamp: a tie unless the run index differs
            return o["date"], o["time"], r.choice([o["run"], o["run"], r.randint(1, 9)])
        if made and x < 0.40:
            o = r.choice(made)       # another stamp inside the same second
            tm = o["time"][:8]
            if tf == "mixed":
                # ('HH:MM:SS' next to 'HH:MM:SS.00' would be a chronological tie that the stamp strings order: not generated)
                if not frac and o["time"][8:] == ".00":
                    frac = True
                if frac:
                    tm += ".%02d" % r.randint(1, 99)
            elif frac:
                tm += ".%02d" % r.randint(0, 99)
            return o["date"], tm, r.randint(1, 9)
        delta = r.choice([r.randint(0, 500), r.randint(0, 500), r.randint(0, 60000), r.randint(0, 8640000),
                          r.randint(0, 86400 * 100 * 40), r.randint(0, 86400 * 100 * 400)])
        if not frac:
            delta -= delta % 100
        elif tf == "mixed" and delta % 100 == 0:
            delta += r.randint(1, 99)
        date, tm = stamp_strings(self.knobs["base_dt"], delta, frac)
        return date, tm, r.randint(1, 9)

    def gen_make(self, r):
        feats = self.gen_feats(r)
        date, tm, run = self.gen_stamp(r)
        names = list(TRACE_NAMES)
        if self.knobs["trace_names_vary"] and r.random() < 0.5:
            names = sorted(r.sample(TRACE_NAMES, r.randint(1, 3)))
        return {"k": "make", "n": r.choice([1, 2, 3, 4, 5, 6, 8, 9, 12, 16, 21, 24, 30, 37, 40]), "feats": feats,
                "date": date, "time": tm, "run": run, "fr": r.choice(FRAME_RATES), "dseed": r.randrange(1 << 30),
                "zero_first": r.random() < 0.25, "zero_last": r.random() < 0.25,
                "nan": r.choice(["none", "none", "some", "one", "first"]), "special": r.random() < 0.2,
                "logs": r.choice([0, 1, 1, 2, 3]), "long_logs": r.random() < 0.3, "tables": r.choice([0, 0, 1]),
                "traces": names, "comp": r.choice(["zstd", "zstd", "none"]),
                # the last events lack their trace / mask (features of different lengths: dclab limits exports to the shortest)
                "ragged": r.choice([0, 0, 0, 0, 0, 0, 0, 1, 2])}

    # ---------------- execution ----------------
    def execute(self, op):
        getattr(self, "do_" + op["k"])(op)

    def register(self, path, kind, data=None, logs=None, tainted=False, extra=None):
        """Add a file to the population.  Facts that a later join/split of this file depends on
        (innate and available features, stamps) are taken from dclab's reading of the file."""
        import dclab
        with self.ctx.sut("C09.open", sig={"kind": kind}):
            with dclab.new_dataset(path) as ds:
                innate = sorted(ds.features_innate)
                avail = sorted(ds.features)
                n = len(ds)
                ex = ds.config["experiment"]
                rec = {"path": path, "name": path.name, "kind": kind, "n": n, "innate": innate, "avail": avail,
                       "date": ex["date"], "time": ex["time"], "run": int(ex["run index"]),
                       "fr": float(ds.config["imaging"]["frame rate"]), "tainted": tainted, "anc": {}}
                data = dict(data or {})
                for f in innate:
                    if f not in data:
                        data[f] = read_feat(ds, f)
                rec["data"] = data
                rec["logs"] = logs if logs is not None else {name: [str(x) for x in ds.logs[name]] for name in sorted(ds.logs.keys())}
        if extra:
            rec.update(extra)
        self.files.append(rec)
        return rec

    def do_make(self, op):
        ctx = self.ctx
        feats = [f for f in op["feats"] if f in POOL]
        if not feats:
            return
        n = int(op["n"])
        scal = [f for f in feats if f in SCALARS]
        extra_meta = {"experiment": {"date": op["date"], "time": op["time"], "run index": int(op["run"])},
                      "imaging": {"frame rate": float(op["fr"])}}
        m = gen.gen_model(op["dseed"], n, uid=op["dseed"] % 50, scalars=scal, image="image" in feats, mask="mask" in feats,
                          contour="contour" in feats, trace=(list(op["traces"]) if "trace" in feats else False),
                          fl="fl1_max" in feats or "trace" in feats, n_logs=op["logs"], n_tables=op["tables"],
                          nan_mode=op["nan"], special=op["special"], meta_extra=extra_meta, long_logs=op["long_logs"])
        m.feats = {f: v for f, v in m.feats.items() if f in feats}
        if "index" in m.feats:
            m.feats["index"] = np.arange(1, n + 1)
        if "index_online" in m.feats and op["dseed"] % 2 == 0:
            # (an online index that starts at zero)
            m.feats["index_online"] = m.feats["index_online"] - m.feats["index_online"][0]
        if "contour" in m.feats:
            # (no all-zero contour: the undocumented contour clause of the boundary skipping stays out of play)
            m.feats["contour"] = [c + 1 for c in m.feats["contour"]]
        if "image" in m.feats:
            if op["zero_first"]:
                m.feats["image"][0] = 0
            if op["zero_last"]:
                m.feats["image"][-1] = 0
        path = self.dir / (self.newname("m") + ".rtdc")
        gen.write_model(m, path, compression=op["comp"])
        d = int(op.get("ragged") or 0)
        short = "trace" if "trace" in m.feats else ("mask" if "mask" in m.feats else None)
        extra = None
        if d and short and n - d >= 1 and sorted(m.feats)[0] not in ("trace", "mask"):
            import h5py
            with h5py.File(path, "a") as h:
                for ds_ in ([h["events"][short]] if short == "mask" else list(h["events"]["trace"].values())):
                    ds_.resize(n - d, axis=0)
            if short == "mask":
                m.feats["mask"] = m.feats["mask"][:n - d]
            else:
                m.feats["trace"] = {k: v[:n - d] for k, v in m.feats["trace"].items()}
            extra = {"ragged": d}
            ctx.probe("ragged_input")
        rec = self.register(path, "made", data=dict(m.feats), logs={k: list(v) for k, v in m.logs.items()}, extra=extra)
        if rec["innate"] != sorted(m.feats) or rec["n"] != n:
            raise RuntimeError(f"generator: written file offers {rec['innate']} (n={rec['n']}), model {sorted(m.feats)} (n={n})")
        ctx.state_ops += 1
        ctx.log("a", f"make {path.name} n={n} {op['date']} {op['time']} run={op['run']} fr={op['fr']} feats={','.join(feats)}",
                seeds.short_hash([m.feats[f] for f in sorted(m.feats)]))

    def do_restamp(self, op):
        import dclab
        import h5py
        if op["src"] >= len(self.files):
            return
        rec = self.files[op["src"]]
        if rec["tainted"]:
            return
        with h5py.File(rec["path"], "a") as h:
            h.attrs["experiment:date"] = op["date"]
            h.attrs["experiment:time"] = op["time"]
            h.attrs["experiment:run index"] = int(op["run"])
        with self.ctx.sut("C09.open", sig={"kind": "restamped"}):
            with dclab.new_dataset(rec["path"]) as ds:
                ex = ds.config["experiment"]
                rec.update({"date": ex["date"], "time": ex["time"], "run": int(ex["run index"])})
        self.ctx.probe("input_restamped_after_join")
        self.ctx.log("a", f"restamp {rec['name']} {rec['date']} {rec['time']} run={rec['run']}")

    # ---- split ----
    def split_model(self, rec, n, skip_i, skip_f):
        N = rec["n"]
        keep = np.ones(N, dtype=bool)
        img = rec["data"].get("image") if "image" in rec["innate"] else None
        applied = [False, False]
        if img is not None and N:
            if skip_i and not np.any(img[0]):
                keep[0] = False
                applied[0] = True
            if skip_f and not np.any(img[N - 1]):
                keep[N - 1] = False
                applied[1] = True
        if rec.get("ragged"):
            # exports are limited to the length of the shortest feature
            keep[N - int(rec["ragged"]):] = False
        windows = []
        for a in range(0, N, n):
            idx = np.arange(a, min(N, a + n))
            windows.append(idx[keep[idx]])
        return keep, windows, applied

    def run_split(self, rec, op, tag):
        """Execute split and judge the parts.  Returns the list of (path, data) of the non-empty parts or None."""
        from dclab import cli
        import dclab
        import h5py
        ctx = self.ctx
        N, n = rec["n"], int(op["n"])
        skip_i, skip_f = bool(op["skip_i"]), bool(op["skip_f"])
        keep, windows, applied = self.split_model(rec, n, skip_i, skip_f)
        empty_part = any(len(w) == 0 for w in windows)
        cls = ("one" if n == 1 else "gt" if n > N else "eq" if n == N else "div" if N % n == 0 else "nondiv")
        outdir = self.dir / self.newname(tag)
        outdir.mkdir()
        ctx.state("split", cls, skip_i, skip_f, applied[0], applied[1], rec["kind"])
        rerun = False
        if op.get("interrupt"):
            import dclab.rtdc_dataset.export as exmod
            orig_hdf5 = exmod.Export.hdf5
            calls = [0]

            def failing(self_, *a, **kw):
                calls[0] += 1
                if calls[0] == int(op["interrupt"]):
                    raise OSError(5, "injected: I/O error")
                return orig_hdf5(self_, *a, **kw)
            exmod.Export.hdf5 = failing
            try:
                with warnings.catch_warnings():
                    warnings.simplefilter("ignore")
                    cli.split(path_in=rec["path"], path_out=outdir, split_events=n, skip_initial_empty_image=skip_i,
                              skip_final_empty_image=skip_f, ret_out_paths=True)
            except Exception:
                rerun = True
                ctx.fault("split_interrupted")
                ctx.probe("split_rerun_after_interruption")
            finally:
                exmod.Export.hdf5 = orig_hdf5
        ragged = bool(rec.get("ragged"))
        allow = ((OSError,) if rerun else ()) + ((ValueError,) if ragged else ())
        with ctx.sut("C09.split.raises", sig={"what": "split_raises", "empty_part": empty_part}, fatal=False,
                     allow=allow or None) as s:
            with warnings.catch_warnings():
                warnings.simplefilter("ignore")
                paths = cli.split(path_in=rec["path"], path_out=outdir, split_events=n, skip_initial_empty_image=skip_i,
                                  skip_final_empty_image=skip_f, ret_out_paths=True)
        ctx.state_ops += 1
        if s.exc is not None:
            if rerun:
                # refusing to run over the remains of the interrupted attempt is safe
                ctx.probe("split_rerun_refused")
            ctx.log("a", f"split {rec['name']} n={n} skip={skip_i},{skip_f} raised {type(s.exc).__name__}")
            return None
        ctx.probe({"one": "split_one", "gt": "split_greater_n", "eq": "split_equal_n", "div": "split_divisor",
                   "nondiv": "split_nondivisor"}[cls])
        if applied[0]:
            ctx.probe("split_skip_initial_applied")
        if applied[1]:
            ctx.probe("split_skip_final_applied")
        sig = {"cls": cls, "skip_applied": bool(applied[0] or applied[1]), "src": rec["kind"]}
        parts = []
        for p in paths:
            if not p.exists():
                continue
            with h5py.File(p, "r") as h:
                ev = h.get("events")
                nonempty = ev is not None and any(len(ev[k]) for k in ev)
            if not nonempty:
                continue
            with ctx.sut("C09.open", sig={"kind": "part"}):
                with dclab.new_dataset(p) as ds:
                    pn = len(ds)
                    pin = sorted(ds.features_innate)
                    lost = [f for f in rec["innate"] if f not in pin]
                    ctx.checked()
                    if lost:
                        ctx.violation("C09.split.features", f"part {p.name} of {rec['name']} lacks the features {lost}", sig=dict(sig, what="lost"))
                    pdata = {f: read_feat(ds, f) for f in pin}
                    pidx = np.asarray(ds["index"][:])
            ctx.checked(2)
            if pn > n:
                ctx.violation("C09.split.size", f"part {p.name} holds {pn} events, requested at most {n}", sig=sig)
            if not np.array_equal(pidx, np.arange(1, pn + 1)):
                ctx.violation("C09.split.index", f"index of part {p.name} does not enumerate 1..{pn}: {pidx[:10]}", sig=sig)
            if pn > 10:
                ctx.probe("split_multi_chunk_part")
            parts.append({"path": p, "n": pn, "data": pdata})
        if ragged:
            # features of different lengths: dclab limits every export to the shortest feature, so events ARE given up (and
            # a part that ends up empty makes split raise).  What the statement still implies is judged: no part larger
            # than requested (above), no event twice, order kept.
            ctx.probe("ragged_split_judged")
            fu = [f for f in rec["innate"] if f in SCALARS and f != "index" and np.asarray(rec["data"][f]).dtype.kind == "f"
                  and len(np.unique(rec["data"][f])) == len(rec["data"][f]) and not np.isnan(rec["data"][f]).any()]
            if fu and parts and all(fu[0] in p["data"] for p in parts):
                orig = np.asarray(rec["data"][fu[0]])
                pos = {float(v): i for i, v in enumerate(orig)}
                got = np.concatenate([np.asarray(p["data"][fu[0]], dtype=float) for p in parts])
                where = [pos.get(float(v), -1) for v in got]
                ctx.checked()
                if any(w < 0 for w in where) or any(b <= a for a, b in zip(where, where[1:])):
                    ctx.violation("C09.split.events", f"parts of {rec['name']} (features of different lengths, N={N}, n={n}, part sizes "
                                  f"{[p['n'] for p in parts]}) hold events twice or out of order: original positions {where[:20]}",
                                  sig=dict(sig, feat="ragged"))
            ctx.log("a", f"split {rec['name']} n={n} ragged parts={[p['n'] for p in parts]}")
            return None
        want = [w for w in windows if len(w)]
        ctx.checked()
        if len(parts) != len(want) or (not empty_part and len(paths) != -(-N // n)):
            ctx.violation("C09.split.count", f"split of {rec['name']} (N={N}, n={n}, skip={skip_i},{skip_f}) gave {len(paths)} files, "
                          f"{len(parts)} non-empty; expected {len(want)} non-empty parts", sig=sig)
        # every event exactly once and in order: the concatenation of the parts is the original
        total = sum(p["n"] for p in parts)
        ctx.checked()
        if total != int(keep.sum()):
            ctx.violation("C09.split.events", f"parts of {rec['name']} hold {total} events together, original has {int(keep.sum())} "
                          f"(N={N}, n={n}, part sizes {[p['n'] for p in parts]})", sig=dict(sig, feat="count"))
        if parts:
            kidx = np.flatnonzero(keep)
            for f in rec["innate"]:
                if f == "index":
                    continue
                got = cat([p["data"][f] for p in parts])
                exp = sel(rec["data"][f], kidx)
                ctx.checked()
                if f in NONSCALARS:
                    ctx.probe("nonscalar_compared")
                if not same(got, exp):
                    ctx.violation("C09.split.events", f"feature {f}: concatenation of the parts of {rec['name']} differs from the original "
                                  f"(N={N}, n={n}, skip={skip_i},{skip_f}, part sizes {[p['n'] for p in parts]}): {first_diff(got, exp)}",
                                  sig=dict(sig, feat=fkind(f)))
        ctx.log("a", f"split {rec['name']} n={n} skip={skip_i},{skip_f} parts={[p['n'] for p in parts]}",
                seeds.short_hash([[p["data"][f] for f in sorted(p["data"])] for p in parts]))
        return parts

    def do_split(self, op):
        if not self.files:
            return
        rec = self.files[op["src"] % len(self.files)]
        n = int(op["n"])
        if rec["tainted"] or n < 1 or -(-rec["n"] // n) > MAX_PARTS + 2:
            self.ctx.count("skipped_split")
            return
        parts = self.run_split(rec, op, "s")
        if not parts:
            return
        chosen = parts if len(parts) <= 4 else parts[:2] + parts[-1:]
        for p in chosen:
            self.register(p["path"], "part", data=p["data"])

    # ---- join ----
    def join_model(self, ins):
        """ins: records in the given order.  Returns the model of the product."""
        order = sorted(range(len(ins)), key=lambda i: (stamp_seconds(ins[i]["date"], ins[i]["time"]), ins[i]["run"]))
        srt = [ins[i] for i in order]
        t0 = stamp_seconds(srt[0]["date"], srt[0]["time"])
        offs = [stamp_seconds(x["date"], x["time"]) - t0 for x in srt]
        # the order the documented string key gives (diagnosis only)
        sorder = sorted(range(len(ins)), key=lambda i: "_".join([ins[i]["date"], ins[i]["time"], str(ins[i]["run"])]))
        # pruning of the candidate list (innate features of the first input), with the adjacency of
        # features that are unavailable in one later input recorded
        cand = list(srt[0]["innate"])
        adjacent = False
        pruned = False
        for x in srt[1:]:
            miss = [f not in x["avail"] for f in cand]
            if any(a and b for a, b in zip(miss, miss[1:])):
                adjacent = True
            if any(miss):
                pruned = True
            cand = [f for f, m_ in zip(cand, miss) if not m_]
        must = set(srt[0]["innate"])
        for x in srt[1:]:
            must &= set(x["innate"])
        return {"order": order, "srt": srt, "offs": offs, "sorder": sorder, "string_order_differs": sorder != order, "adjacent": adjacent,
                "pruned": pruned, "must": sorted(must), "cand": cand}

    def input_value(self, x, f):
        """feature f of input x as the join sees it"""
        import dclab
        if f in x["data"]:
            return x["data"][f]
        if f not in x["anc"]:
            with self.ctx.sut("C09.open", sig={"kind": "input-ancillary"}):
                with dclab.new_dataset(x["path"]) as ds:
                    x["anc"][f] = read_feat(ds, f)
        self.ctx.probe("join_ancillary_input")
        self.ctx.count("join_ancillary_" + f)
        return x["anc"][f]

    def run_join(self, ins, tag, roundtrip_of=None):
        from dclab import cli
        import dclab
        ctx = self.ctx
        jm = self.join_model(ins)
        srt, offs = jm["srt"], jm["offs"]
        path = self.dir / (self.newname(tag) + ".rtdc")
        keys = [(x["date"], x["time"], x["run"]) for x in ins]
        stamps = [(x["date"], x["time"]) for x in ins]
        rel = ("all_tie" if len(set(keys)) == 1 else "some_tie" if len(set(keys)) < len(keys) else "distinct")
        frel = "same" if all(x["innate"] == srt[0]["innate"] for x in srt) else ("adjacent" if jm["adjacent"] else "pruned" if jm["pruned"] else "differ")
        ctx.state("join" if roundtrip_of is None else "roundtrip", len(ins), frel, rel,
                  "+".join(sorted({x["kind"] for x in ins})), jm["string_order_differs"])
        if jm["adjacent"]:
            ctx.probe("join_adjacent_missing")
        base_sig = {"adjacent_missing": jm["adjacent"], "string_order_differs": jm["string_order_differs"]}
        names = [x["name"] for x in ins]
        if not jm["cand"]:
            # no feature is available in every input: the statement does not say what the product is
            try:
                with warnings.catch_warnings():
                    warnings.simplefilter("ignore")
                    cli.join(paths_in=[x["path"] for x in ins], path_out=path)
            except Exception as e:
                ctx.log("a", f"join {names} (no common feature) raised {type(e).__name__}")
            ctx.count("join_no_common_feature_unjudged")
            return None
        if seeds.H(ctx.seed, "same_out", self.counter) % 4 == 0:
            # the output path was already used by an earlier join in this session (here: of the first two inputs)
            try:
                with warnings.catch_warnings():
                    warnings.simplefilter("ignore")
                    cli.join(paths_in=[x["path"] for x in ins[:2]], path_out=path)
                ctx.probe("join_into_previously_used_path")
            except Exception as e:
                ctx.log("a", f"preliminary join raised {type(e).__name__}")
        with ctx.sut("C09.join.raises", sig=dict(base_sig, what="join_raises"), fatal=False) as s:
            with warnings.catch_warnings():
                warnings.simplefilter("ignore")
                cli.join(paths_in=[x["path"] for x in ins], path_out=path)
        ctx.state_ops += 1
        if s.exc is not None:
            ctx.log("a", f"join {names} raised {type(s.exc).__name__}")
            return None
        # probes
        if jm["order"] != list(range(len(ins))):
            ctx.probe("join_shuffled")
        if len(set(keys)) < len(keys) and roundtrip_of is None:
            ctx.probe("join_tie_given_order")
        if any(o.denominator != 1 for o in offs):
            ctx.probe("join_fractional_offset")
        if len({(d, t[:8]) for d, t in stamps}) < len(set(stamps)):
            ctx.probe("join_same_second")
        if len({x["date"] for x in ins}) > 1:
            ctx.probe("join_crosses_midnight")
        if jm["pruned"]:
            ctx.probe("join_feature_pruned")
        if any(x["kind"] != "made" for x in ins) and roundtrip_of is None:
            ctx.probe("join_of_products")
        if len(ins) == 5:
            ctx.probe("join_5_inputs")

        if jm["string_order_differs"]:
            sig = dict(base_sig)
        else:
            sig = dict(base_sig, n_inputs=min(len(ins), 3), feature_sets=frel, stamps=rel)
        descr = f"join of {names} (chronological order {[x['name'] for x in srt]})"
        if jm["string_order_differs"]:
            # The documented sort key orders these inputs differently from their acquisition times; whatever
            # disagrees with the model below is reported as one finding about the order.
            real_violation = ctx.violation

            def order_violation(oracle, detail, sig=None, **kw):
                pre = "" if oracle == "C09.join.order" else f"[{oracle}] "
                real_violation("C09.join.order", f"{pre}{detail}; stamp strings in the given order "
                               f"{['_'.join([x['date'], x['time'], str(x['run'])]) for x in ins]}", sig=dict(base_sig), **kw)
            ctx = _Redirect(ctx, order_violation)
        with ctx.sut("C09.open", sig={"kind": "joined"}):
            with dclab.new_dataset(path) as ds:
                N = len(ds)
                out_innate = sorted(ds.features_innate)
                out = {f: read_feat(ds, f) for f in out_innate}
                out_index = np.asarray(ds["index"][:])
                out_logs = {name: [str(v) for v in ds.logs[name]] for name in sorted(ds.logs.keys())}
        total = sum(x["n"] for x in srt)
        ctx.checked()
        tn_ = [tuple(sorted(x["data"]["trace"])) for x in srt if "trace" in x["data"]]
        if "trace" in out_innate and len(set(tn_)) > 1:
            # inputs whose trace channels differ contradict each other (the product's traces are of different lengths and the
            # event count follows the alphabetically first one): counted, not judged - see join_trace_names_differ
            pass
        elif N != total:
            ctx.violation("C09.join.count", f"{descr}: product has {N} events, the inputs {total}", sig=sig)
        # (a) every written feature is available in every input
        for f in out_innate:
            ctx.checked()
            bad = [x["name"] for x in srt if f not in x["avail"]]
            if bad:
                ctx.violation("C09.join.features", f"{descr}: feature {f} was written but is not available in {bad}", sig=dict(sig, what="unavailable_written"))
        # (b) every feature innate in every input is written
        ctx.checked()
        lost = [f for f in jm["must"] if f not in out_innate]
        if lost:
            ctx.violation("C09.join.features", f"{descr}: features {lost} are stored in every input but missing in the product", sig=dict(sig, what="common_lost"))
        # (c) values
        if jm["string_order_differs"]:
            # diagnosis: were the inputs concatenated in the order of their stamp strings?
            ssrt = [ins[i] for i in jm["sorder"]]
            for f in out_innate:
                if f in ("index", "index_online", "time", "frame"):
                    continue
                ctx.checked()
                if not same(out[f], cat([self.input_value(x, f) for x in srt])) and same(out[f], cat([self.input_value(x, f) for x in ssrt])):
                    ctx.violation("C09.join.order", f"{descr}: the events were concatenated in the order {[x['name'] for x in ssrt]} "
                                  f"(order of the strings {['_'.join([x['date'], x['time'], str(x['run'])]) for x in ssrt]})", sig=sig)
                break
        ctx.checked()
        if not np.array_equal(out_index, np.arange(1, N + 1)):
            ctx.violation("C09.join.index", f"{descr}: index is not 1..{N}: {out_index[:12]}", sig=sig)
        for f in out_innate:
            if f == "index":
                continue
            vals = [self.input_value(x, f) for x in srt]
            got = out[f]
            ctx.checked()
            if f in NONSCALARS:
                ctx.probe("nonscalar_compared")
            if not isinstance(got, dict) and vlen(got) != total:
                ctx.violation("C09.join.values", f"{descr}: feature {f} holds {vlen(got)} events, expected {total}", sig=dict(sig, feat=fkind(f), what="length"))
            if f == "index_online":
                if roundtrip_of is not None and JUDGE_INDEX_ONLINE_ROUNDTRIP:
                    if not same(got, cat(vals)):
                        ctx.violation("C09.roundtrip", f"{descr}: index_online not reproduced", sig=dict(sig, feat=f))
                a = np.asarray(got).astype(np.int64)
                if not np.all(np.diff(a) > 0):
                    ctx.violation("C09.join.index_online", f"{descr}: index_online is not strictly increasing: {a[:16]}", sig=sig)
                continue
            if f == "time":
                exp = np.concatenate([np.asarray(v, dtype=np.float64) + float(o) for v, o in zip(vals, offs)])
                g = np.asarray(got, dtype=np.float64)
                if any(o != 0 for o in offs):
                    ctx.probe("join_time_shifted")
                ok = g.shape == exp.shape and bool(np.all(np.abs(g - exp) <= 1e-6 + 1e-12 * np.abs(exp)))
                if not ok:
                    i = int(np.flatnonzero(~(np.abs(g - exp) <= 1e-6 + 1e-12 * np.abs(exp)))[0]) if g.shape == exp.shape else -1
                    ctx.violation("C09.join.time", f"{descr}: time is not input time + acquisition offset (offsets {[float(o) for o in offs]} s): "
                                  f"event {i}: {g[i] if i >= 0 else g.shape!r} instead of {exp[i] if i >= 0 else exp.shape!r}", sig=sig)
                continue
            if f == "frame":
                shifts = [int(round(float(o) * x["fr"])) for o, x in zip(offs, srt)]
                exp = np.concatenate([np.asarray(v).astype(np.uint64) + np.uint64(sh) for v, sh in zip(vals, shifts)])
                if any(shifts):
                    ctx.probe("join_frame_shifted")
                if not arr_eq(np.asarray(got).astype(np.uint64), exp):
                    ctx.violation("C09.join.frame", f"{descr}: frame is not input frame + offset*frame rate (shifts {shifts}): {first_diff(got, exp)}", sig=sig)
                continue
            exp = cat(vals)
            if not same(got, exp):
                ctx.violation("C09.join.values", f"{descr}: feature {f} is not the concatenation of the inputs in chronological order: "
                              f"{first_diff(got, exp)}", sig=dict(sig, feat=fkind(f), what="values"))
        # logs of every source
        nlogs = 0
        for k, x in enumerate(srt, 1):
            for name, lines in x["logs"].items():
                key = f"src-#{k}_{name}"
                ctx.checked()
                nlogs += 1
                if key not in out_logs:
                    ctx.violation("C09.join.logs", f"{descr}: log '{name}' of source {k} ({x['name']}) is missing (expected as '{key}')", sig=dict(sig, what="missing"))
                if out_logs[key] != lines:
                    ctx.violation("C09.join.logs", f"{descr}: log '{key}' differs from log '{name}' of {x['name']}: {len(out_logs[key])} lines vs {len(lines)}",
                                  sig=dict(sig, what="lines"))
        if nlogs:
            ctx.probe("join_logs_compared")
        # the round trip: the product reproduces the original
        if roundtrip_of is not None:
            orig, keep = roundtrip_of
            kidx = np.flatnonzero(keep)
            for f in orig["innate"]:
                if f == "index_online" and not JUDGE_INDEX_ONLINE_ROUNDTRIP:
                    continue
                ctx.checked()
                if f not in out:
                    ctx.violation("C09.roundtrip", f"join of the parts of {orig['name']} lacks feature {f}", sig={"feat": fkind(f), "what": "lost"})
                exp = sel(orig["data"][f], kidx)
                if f == "index":
                    exp = np.arange(1, len(kidx) + 1)
                if f == "time":
                    okf = arr_eq(np.asarray(out[f], dtype=np.float64), np.asarray(exp, dtype=np.float64))
                else:
                    okf = same(out[f], exp)
                if not okf:
                    ctx.violation("C09.roundtrip", f"join of the parts of {orig['name']}: feature {f} differs from the original: {first_diff(out[f], exp)}",
                                  sig={"feat": fkind(f), "what": "values"})
            ctx.probe("roundtrip_reproduced")
        ctx.log("a", f"join {names} order={jm['order']} N={N} feats={','.join(out_innate)}",
                seeds.short_hash([out[f] for f in out_innate]))
        tnames = [tuple(sorted(x["data"]["trace"])) for x in srt if "trace" in x["data"]]
        tainted = "trace" in out and len(set(tnames)) > 1
        if tainted:
            ctx.count("join_trace_names_differ")
        return {"path": path, "data": out, "logs": out_logs, "tainted": tainted}

    def do_join(self, op):
        if len(self.files) < 2:
            return
        ins = []
        for i in op["srcs"]:
            rec = self.files[i % len(self.files)]
            if rec["tainted"] or rec.get("ragged") or any(rec is x for x in ins):
                continue
            ins.append(rec)
        ins = ins[:5]
        if len(ins) < 2 or sum(x["n"] for x in ins) > MAX_JOIN_EVENTS:
            self.ctx.count("skipped_join")
            return
        res = self.run_join(ins, "j")
        if res is not None:
            self.register(res["path"], "joined", data=res["data"], logs=res["logs"], tainted=res["tainted"])

    def do_roundtrip(self, op):
        if not self.files:
            return
        rec = self.files[op["src"] % len(self.files)]
        n = int(op["n"])
        if rec["tainted"] or rec.get("ragged") or n < 1 or -(-rec["n"] // n) > MAX_PARTS:
            self.ctx.count("skipped_roundtrip")
            return
        parts = self.run_split(rec, op, "r")
        if not parts or len(parts) < 2:
            return
        keep, _, _ = self.split_model(rec, n, bool(op["skip_i"]), bool(op["skip_f"]))
        before = len(self.files)
        ins = [self.register(p["path"], "part", data=p["data"]) for p in parts]
        try:
            self.run_join(ins, "rj", roundtrip_of=(rec, keep))
        finally:
            # the parts of a round trip do not join the population
            del self.files[before:]


class _Redirect:
    """the run context with `violation` replaced"""

    def __init__(self, ctx, violation):
        self._ctx = ctx
        self.violation = violation

    def __getattr__(self, name):
        return getattr(self._ctx, name)


def pick_split_n(r, N):
    mode = r.choice(["one", "div", "nondiv", "nondiv", "eq", "gt"])
    lo = max(2, -(-N // MAX_PARTS))
    if mode == "one" and N <= MAX_PARTS:
        return 1
    if mode == "eq":
        return N
    if mode == "gt":
        return N + r.choice([1, 2, 7, 1000])
    if mode == "div":
        ds = [d for d in range(lo, N) if N % d == 0]
        if ds:
            return r.choice(ds)
    cands = [d for d in range(lo, N) if N % d]
    if cands:
        return r.choice(cands)
    return r.choice([1, N, N + 1]) if N <= MAX_PARTS else N


def run(trace, ctx):
    knobs = trace["knobs"]
    seams.set_tz(knobs["tz"])
    seams.set_knob_chunk_bytes(knobs["chunk_bytes"])
    if knobs["tz"] != "UTC":
        ctx.probe("tz_not_utc")
    w = World(trace, ctx)
    while True:
        op = ctx.next_op(w.gen_op, max_ops=trace.get("max_ops", 6))
        if op is None:
            break
        w.execute(op)
        ctx.clock.advance(ctx.rng("clock").choice([0, 0, 0.4, 1, 61, 3600]))
    ctx.info["sample"] = {"knobs": knobs, "base": trace["base"], "ops": (trace.get("ops") or [])[:6], "files": len(w.files)}


def simplify(trace):
    """candidate simplifications: neutral environment, smaller and poorer measurements, fewer join inputs"""
    knobs = trace.get("knobs") or {}
    for key, val in (("tz", "UTC"), ("chunk_bytes", 1024 ** 2)):
        if knobs.get(key) != val:
            t = dict(trace)
            t["knobs"] = dict(knobs, **{key: val})
            yield t
    ops = trace.get("ops") or []

    def with_op(i, o2):
        t = dict(trace)
        t["ops"] = ops[:i] + [o2] + ops[i + 1:]
        return t
    for i, op in enumerate(ops):
        if op.get("k") == "make":
            if op["n"] > 1:
                yield with_op(i, dict(op, n=max(1, op["n"] // 2)))
            for key, val in (("logs", 0), ("tables", 0), ("nan", "none"), ("special", False), ("zero_first", False),
                             ("zero_last", False), ("long_logs", False), ("comp", "zstd")):
                if op.get(key) != val:
                    yield with_op(i, dict(op, **{key: val}))
            if len(op["feats"]) > 1:
                for f in op["feats"]:
                    yield with_op(i, dict(op, feats=[x for x in op["feats"] if x != f]))
        elif op.get("k") == "join" and len(op["srcs"]) > 2:
            for j in range(len(op["srcs"])):
                yield with_op(i, dict(op, srcs=op["srcs"][:j] + op["srcs"][j + 1:]))
        elif op.get("k") in ("split", "roundtrip"):
            for key in ("skip_i", "skip_f"):
                if op.get(key):
                    yield with_op(i, dict(op, **{key: False}))
