"""C01 — data written through the writer API is read back exactly.

World A.  One producer actor drives RTDCWriter through seeded session
histories (open in append/replace/reset mode, interleaved feature/log/table/
metadata writes with every split of the events over calls, close, reopen); a
reference model applies the same calls.  Close/reopen is the "restart": the
writer's private counters die with the object, the file survives."""
import json
import pathlib

import warnings

import numpy as np

from dst import gen, seeds, seams

NAME = "C01"
PROPERTY = "C01"
LEVEL = "exploration"
RULE = ("one evaluation = one seeded writer history (<= 5 sessions, <= 30 operations, <= 150 events) executed against "
        "RTDCWriter and the reference model, with verification (reopen through dclab and through raw h5py) at every "
        "verify point; non-trivial = at least one state-changing write and one oracle comparison; distinct = distinct "
        "event-log digests (operation sequence + data hashes + results)")
STATE_MEASURE = "distinct (mode, session index, feature kind, part length relative to chunk length, nan pattern) tuples"
PROBES = ["refused_contour_then_more_contours", "metadata_dict_shared_with_other_file", "side_file_with_other_event_shape", "first_access_with_lossy_dtype", "remainder_after_full_chunk", "append_across_sessions", "replace_existing", "reset_nonempty",
          "log_append_longer_than_first", "log_multibyte", "bare_close", "h5file_target", "contour_across_sessions",
          "rejected_call", "table_with_attrs", "trace_subset_replace", "part_equals_chunk", "single_event_part", "integer_table"]
COMPONENTS = {
    "real": ["dclab RTDCWriter", "dclab RTDC_HDF5 reader (events, logs, tables, config)", "h5py/HDF5 + hdf5plugin on tmpfs"],
    "stub": ["wall clock", "dclab version string (0.99.0)"],
}
ASSUMPTIONS = [
    "a feature's dtype is kept constant over a history (HDF5 freezes it at the first write)",
    "log lines carry no trailing NUL bytes (not representable in HDF5 fixed-length strings)",
    "event count and index oracles are evaluated only at consistent cuts (all features equally long, last session closed through the context manager)",
]

SCALAR_POOL = ["area_um", "deform", "bright_avg", "pos_x", "time", "temp", "volume", "userdef1",
               "fl1_max", "fl1_npeaks", "nevents", "ml_class", "frame", "index", "index_online", "tilt"]
NONSCALAR_POOL = ["image", "image_bg", "mask", "contour", "trace", "qpi_pha", "tmp_shaped"]
CHUNK_KNOBS = [1024 ** 2, 1024 ** 2, 640, 880, 960, 1536, 2960]

with open(pathlib.Path(__file__).resolve().parent.parent / "spec" / "meta_types.json") as _f:
    META_TYPES = json.load(_f)


def plan(tier):
    if tier == "quick":
        return {"runs": 3600, "budget_s": 50, "run_timeout_s": 120, "det_pairs": 3}
    return {"runs": 60000, "budget_s": 780, "run_timeout_s": 180, "det_pairs": 3}


def make_trace(seed, tier):
    r = seeds.rng(seed, "plan")
    nsc = r.choice([0, 1, 2, 3, 5])
    feats = r.sample(SCALAR_POOL, nsc) + r.sample(NONSCALAR_POOL, r.choice([0, 1, 1, 2, 3]))
    if not feats:
        feats = [r.choice(SCALAR_POOL + NONSCALAR_POOL)]
    return {
        "knobs": {"chunk_bytes": r.choice(CHUNK_KNOBS), "shape": r.choice([[8, 10], [6, 12], [5, 7]]),
                  "f32": r.random() < 0.25,
                  # another file written earlier in the same process holds the user-shaped feature with this event shape
                  "side_shape": r.choice([None, None, [4, 3], [12], [2, 6], [3, 4]]),
                  # the first access of scalar features of the reopened file asks for a lossy dtype
                  "dtype_first": r.random() < 0.3,
                  # one metadata dictionary of the caller is stored into another file first and then into this one
                  "shared_meta": r.random() < 0.25},
        "feats": feats,
        "max_ops": r.choice([6, 12, 20, 30]),
        "ops": None,
    }


# -----------------------------------------------------------------------------------
# data generation for one call (pure function of the op's data seed)
# -----------------------------------------------------------------------------------

def feature_data(feat, n, dseed, knobs, traces=None):
    rs = seeds.np_rng(dseed, "d")
    h, w = knobs["shape"]
    if feat in SCALAR_POOL:
        mode = ["none", "none", "first", "some", "all", "one"][dseed % 6]
        if feat in ("area_um", "deform"):
            rsv = rs.uniform(0.01, 200.0, size=n)
            if mode == "some":
                rsv[rs.random(n) < 0.3] = np.nan
            elif mode == "first":
                rsv[:max(1, n // 3)] = np.nan
            elif mode == "all":
                rsv[:] = np.nan
            v = rsv
        else:
            v = gen.scalar_values(rs, feat, n, 0, mode, special=(dseed % 5 == 0))
        if feat == "index":
            v = rs.integers(0, 1000, size=n).astype(np.int64)  # ignored by contract
        # (a float32 "time" next to "frame" and a frame rate is documented as defective and is
        # deliberately recomputed by the reader: keep "time" in float64)
        if knobs.get("f32") and v.dtype == np.float64 and feat != "time":
            v = v.astype(np.float32)
        return v
    if feat in ("image", "image_bg"):
        return rs.integers(0, 256, size=(n, h, w)).astype(np.uint8)
    if feat == "mask":
        return rs.random((n, h, w)) < 0.4
    if feat == "qpi_pha":
        return rs.normal(size=(n, h, w)).astype(np.float32)
    if feat == "tmp_shaped":
        return rs.normal(size=(n, 3, 4))
    if feat == "contour":
        return [rs.integers(0, 60, size=(int(rs.integers(3, 9)), 2)).astype(np.int32) for _ in range(n)]
    if feat == "trace":
        names = traces or gen.TRACES[:4]
        return {k: rs.integers(-2000, 2000, size=(n, 11)).astype(np.int16) for k in names}
    raise KeyError(feat)


def expected_dtype(feat, first):
    if feat in ("fl1_max", "fl1_npeaks", "nevents", "ml_class", "index"):
        return np.dtype(np.uint32)
    if feat == "frame":
        return np.dtype(np.uint64)
    if feat in ("image", "image_bg"):
        return np.dtype(np.uint8)
    if feat == "qpi_pha":
        return np.dtype(np.float32)
    return np.asarray(first).dtype


def concat(a, b):
    if a is None:
        return b
    if isinstance(a, list):
        return a + list(b)
    if isinstance(a, dict):
        out = dict(a)
        for k, v in b.items():
            out[k] = np.concatenate([a[k], v]) if k in a else v
        return out
    return np.concatenate([a, b])


def flen(v):
    if isinstance(v, dict):
        ls = {len(x) for x in v.values()}
        return ls.pop() if len(ls) == 1 else -1
    return len(v)


def meta_value(sec, key, typ, dseed, rep):
    """(value as passed to the writer, expected value after reading)"""
    r = seeds.rng(dseed, "meta" + sec + key)
    if typ == "str":
        s = r.choice(["abc", "Sample Ä", "x y z", "CellCarrier", "2020-01-02", "10:20:30.5"])
        if key == "software version":
            s = "ShapeIn 2.1." + str(r.randint(0, 9))
        if key == "date":
            s = "2020-0%d-1%d" % (r.randint(1, 9), r.randint(0, 9))
        if key == "time":
            s = "1%d:2%d:3%d" % (r.randint(0, 9), r.randint(0, 9), r.randint(0, 9))
        return (s.encode("utf-8") if rep == "bytes" else s), s
    if typ == "lcstr":
        s = r.choice(["Channel", "RESERVOIR", "channel"])
        return (s.encode("utf-8") if rep == "bytes" else s), s.lower()
    if typ == "float":
        f = r.choice([0.5, 20.0, 1e-3, 123.456, 7.0])
        val = {"native": f, "str": repr(f), "np": np.float64(f), "np32": np.float32(f), "int": int(f) if f == int(f) else f}.get(rep, f)
        exp = float(np.float32(f)) if rep == "np32" else float(f)
        return val, exp
    if typ == "fint":
        i = r.choice([0, 1, 7, 250, 65535])
        val = {"native": i, "str": str(i), "np": np.int64(i), "float": float(i), "strfloat": f"{i}.0"}.get(rep, i)
        return val, int(i)
    if typ == "fbool":
        b = r.random() < 0.5
        val = {"native": b, "str": str(b), "np": np.bool_(b), "int": int(b), "strlow": str(b).lower()}.get(rep, b)
        return val, bool(b)
    return None, None


META_REPS = {"str": ["native", "bytes"], "lcstr": ["native", "bytes"],
             "float": ["native", "str", "np", "np32", "int"],
             "fint": ["native", "str", "np", "float", "strfloat"],
             "fbool": ["native", "str", "np", "int", "strlow"]}


# -----------------------------------------------------------------------------------
# the machine
# -----------------------------------------------------------------------------------

class Machine:
    def __init__(self, trace, ctx, path):
        self.t, self.ctx, self.path = trace, ctx, pathlib.Path(path)
        self.knobs = trace["knobs"]
        self.active = list(trace["feats"])
        self.m = gen.ModelDataset()
        self.m.feats = {}
        self.writer = None
        self.h5 = None
        self.mode = None
        self.session = 0
        self.exists = False
        self.last_close = None
        self.log_first_len = {}
        self.pending_reject = False
        self.contour_sessions = set()

    # ---- helpers ----
    @property
    def N(self):
        ls = [flen(v) for v in self.m.feats.values() if flen(v) > 0]
        return ls[0] if ls else 0

    def consistent(self):
        ls = {flen(v) for v in self.m.feats.values()}
        return len(ls) <= 1 and -1 not in ls

    def chunk_len(self, feat):
        import dclab.rtdc_dataset.writer as W
        h, w = self.knobs["shape"]
        if feat in ("image", "image_bg", "mask"):
            return W.RTDCWriter.get_best_nd_chunks((h, w), np.uint8)[0]
        if feat == "qpi_pha":
            return W.RTDCWriter.get_best_nd_chunks((h, w), np.float32)[0]
        if feat == "trace":
            return W.RTDCWriter.get_best_nd_chunks((11,), np.int16)[0]
        if feat == "tmp_shaped":
            return W.RTDCWriter.get_best_nd_chunks((3, 4), np.float64)[0]
        return None

    # ---- generation ----
    def gen_op(self, r):
        if self.writer is None:
            if self.exists and r.random() < 0.35:
                return {"k": "verify"}
            mode = r.choice(["append", "append", "append", "replace", "reset"]) if self.exists else r.choice(["append", "reset", "replace"])
            via = r.choice(["path", "path", "h5file"]) if mode != "reset" else "path"
            return {"k": "open", "mode": mode, "via": via, "comp": r.choice(["zstd", "zstd", "none", "gzip"])}
        x = r.random()
        if x < 0.12:
            return {"k": "close", "how": r.choice(["exit", "exit", "exit", "bare"])}
        if x < 0.62:
            if self.mode == "replace" and self.m.feats:
                f = r.choice(self.active)
                op = {"k": "replace", "feat": f, "dseed": r.randrange(1 << 30)}
                if f == "trace":
                    # (only the four traces that append rounds write, so that all traces keep one length)
                    op["traces"] = r.sample(gen.TRACES[:4], r.randint(1, 3))
                if not self.m.feats or f not in self.m.feats:
                    op["n"] = self.N or r.choice([1, 7, 12])
                return op
            return self.gen_round(r)
        if x < 0.74:
            return {"k": "log", "name": r.choice(["l0", "l1", "wörk"]), "nlines": r.randint(1, 5), "dseed": r.randrange(1 << 30),
                    "long": r.random() < 0.35, "as": r.choice(["list", "list", "str", "bytes"])}
        if x < 0.82:
            return {"k": "table", "name": f"t{r.randint(0, 3)}", "dseed": r.randrange(1 << 30),
                    "as": r.choice(["dict", "rec", "h5ds", "dict_int", "dict_lists"])}
        if x < 0.94:
            keys = []
            for _ in range(r.randint(1, 5)):
                sec = r.choice(["experiment", "imaging", "setup", "fluorescence", "online_contour", "user"])
                if sec == "user":
                    keys.append(["user", r.choice(["my key", "note", "val 2"]), r.choice(["str", "int", "float", "bool"])])
                    continue
                cands = [k for k, tp in META_TYPES[sec].items() if tp in META_REPS and k not in ("event count", "samples per event", "roi size x", "roi size y", "channel count")]
                key = r.choice(sorted(cands))
                keys.append([sec, key, r.choice(META_REPS[META_TYPES[sec][key]])])
            return {"k": "meta", "dseed": r.randrange(1 << 30), "keys": keys}
        return {"k": "reject", "what": r.choice(["empty", "unknown_feat", "unknown_trace", "unknown_meta_key", "unknown_meta_sec", "empty_contour", "empty_contour"])}

    def gen_round(self, r):
        n = r.choice([1, 2, 3, 5, 9, 10, 11, 12, 16, 21, 33])
        seq = []
        for f in self.active:
            c = self.chunk_len(f) or r.choice([4, 10])
            # composition of n into parts biased to {1, c-1, c, c+1, 2c+r}
            left = n
            parts = []
            while left > 0:
                p = min(left, r.choice([1, c - 1, c, c + 1, 2 * c + 1, left, left, max(1, left // 2)]))
                p = max(1, p)
                parts.append(p)
                left -= p
            seq.append((f, parts))
        # interleave the parts of the different features
        flat = []
        cursors = {f: 0 for f, _ in seq}
        pmap = dict(seq)
        alive = [f for f, _ in seq]
        while alive:
            f = r.choice(alive)
            flat.append([f, pmap[f][cursors[f]]])
            cursors[f] += 1
            if cursors[f] >= len(pmap[f]):
                alive.remove(f)
        return {"k": "round", "n": n, "dseed": r.randrange(1 << 30), "seq": flat}

    # ---- execution ----
    def execute(self, op):
        k = op["k"]
        getattr(self, "do_" + k)(op)

    def do_open(self, op):
        import h5py
        import hdf5plugin
        from dclab.rtdc_dataset.writer import RTDCWriter
        ctx = self.ctx
        if self.writer is not None:
            return
        mode = op["mode"]
        ckw = {"zstd": None, "none": {"compression": None}, "gzip": {"compression": "gzip", "compression_opts": 3}}[op["comp"]]
        if op["via"] == "h5file" and mode != "reset":
            self.h5 = h5py.File(self.path, "a")
            target = self.h5
            ctx.probe("h5file_target")
        else:
            self.h5 = None
            target = self.path
        with ctx.sut("C01.open"):
            self.writer = RTDCWriter(target, mode=mode, compression_kwargs=ckw)
        self.mode = mode
        self.session += 1
        if mode == "reset":
            if self.exists and (self.m.feats or self.m.logs):
                ctx.probe("reset_nonempty")
            self.m = gen.ModelDataset()
            self.m.feats = {}
            self.log_first_len = {}
        self.exists = True
        ctx.state_ops += 1
        ctx.log("w", f"open {mode} {op['via']} {op['comp']}")

    def _store(self, feat, data, shape_arg=None):
        hw = self.writer
        real = "userdef0" if False else feat
        if feat == "tmp_shaped":
            if shape_arg:
                hw.store_feature("tmp_shaped", data, shape=(3, 4))
            else:
                hw.store_feature("tmp_shaped", data)
        else:
            hw.store_feature(real, data)

    def do_round(self, op):
        ctx = self.ctx
        if self.writer is None:
            return
        n = op["n"]
        seq = op["seq"]
        if self.mode == "replace":
            # in replace mode every call substitutes the feature: one call per feature, and the
            # length must match what is already there to stay at a consistent cut
            if self.N:
                n = self.N
            seq = [[f, n] for f in dict.fromkeys(x[0] for x in seq)]
        full = {}
        for f in dict.fromkeys(x[0] for x in op["seq"]):
            if f not in self.active:
                continue
            full[f] = feature_data(f, n, seeds.H(op["dseed"], f), self.knobs)
        pos = {f: 0 for f in full}
        for f, p in seq:
            if f not in full:
                continue
            a, b = pos[f], min(n, pos[f] + p)
            if a >= b:
                continue
            pos[f] = b
            d = full[f]
            if isinstance(d, dict):
                part = {kk: v[a:b] for kk, v in d.items()}
            elif isinstance(d, list):
                part = d[a:b]
                if len(part) == 1 and op["dseed"] % 2:
                    part = part[0]  # single (n,2) array route
            else:
                part = d[a:b]
            c = self.chunk_len(f)
            if c:
                if b - a > c and (b - a) % c:
                    ctx.probe("remainder_after_full_chunk")
                if b - a == c:
                    ctx.probe("part_equals_chunk")
                rel = "lt" if b - a < c else ("eq" if b - a == c else ("mult" if (b - a) % c == 0 else "gt+r"))
            else:
                rel = "scalar"
            if b - a == 1:
                ctx.probe("single_event_part")
            if f in self.m.feats and self.session > 1:
                ctx.probe("append_across_sessions")
            if f == "contour":
                self.contour_sessions.add(self.session)
                if len(self.contour_sessions) > 1:
                    ctx.probe("contour_across_sessions")
            ctx.state(self.mode, min(self.session, 4), f if f in NONSCALAR_POOL else "scalar", rel, op["dseed"] % 6 if f in SCALAR_POOL else "-")
            with ctx.sut("C01.store_feature", sig={"feat": f if f in NONSCALAR_POOL else "scalar", "mode": self.mode}):
                self._store(f, part, shape_arg=(op["dseed"] % 3 == 0))
            ctx.state_ops += 1
            ctx.log("w", f"store {f} {a}:{b}", seeds.short_hash(part))
        # model: missed tails (parts not covering n after edits by the minimiser) are simply not written
        for f, d in full.items():
            got = pos[f]
            if got == 0:
                continue
            if isinstance(d, dict):
                d = {kk: v[:got] for kk, v in d.items()}
            else:
                d = d[:got]
            if self.mode == "replace":
                if f == "trace" and isinstance(self.m.feats.get("trace"), dict):
                    cur = dict(self.m.feats["trace"])
                    cur.update(d)
                    d = cur
                self.m.feats[f] = d
            else:
                self.m.feats[f] = concat(self.m.feats.get(f), d)

    def do_replace(self, op):
        ctx = self.ctx
        if self.writer is None or self.mode != "replace":
            return
        f = op["feat"]
        if f not in self.active:
            return
        n = self.N or op.get("n") or 5
        traces = op.get("traces")
        d = feature_data(f, n, op["dseed"], self.knobs, traces=traces)
        if f in self.m.feats:
            ctx.probe("replace_existing")
        with ctx.sut("C01.store_feature", sig={"feat": f if f in NONSCALAR_POOL else "scalar", "mode": "replace"}):
            self._store(f, d, shape_arg=True)
        ctx.state_ops += 1
        ctx.state("replace", min(self.session, 4), f if f in NONSCALAR_POOL else "scalar", "full", "-")
        ctx.log("w", f"replace {f} n={n}", seeds.short_hash(d))
        if f == "trace" and isinstance(self.m.feats.get("trace"), dict):
            cur = dict(self.m.feats["trace"])
            cur.update(d)
            self.m.feats["trace"] = cur
            ctx.probe("trace_subset_replace")
        else:
            self.m.feats[f] = d

    def do_log(self, op):
        ctx = self.ctx
        if self.writer is None:
            return
        pr = seeds.rng(op["dseed"], "log")
        lines = gen.gen_log_lines(pr, op["nlines"], long_lines=op["long"])
        if op["as"] == "str":
            lines = lines[:1]
            arg = lines[0]
        elif op["as"] == "bytes":
            arg = [ln.encode("utf-8") for ln in lines]
        else:
            arg = lines
        name = op["name"]
        maxb = max(len(ln.encode("utf-8")) for ln in lines)
        if any(len(ln.encode("utf-8")) != len(ln) for ln in lines):
            ctx.probe("log_multibyte")
        exists = name in self.m.logs and self.mode != "replace"
        if exists and maxb > max(100, self.log_first_len.get(name, 0)):
            ctx.probe("log_append_longer_than_first")
        with ctx.sut("C01.store_log"):
            self.writer.store_log(name, arg)
        ctx.state_ops += 1
        ctx.log("w", f"log {name} {len(lines)} {op['as']}", seeds.short_hash(lines))
        if exists:
            self.m.logs[name] = self.m.logs[name] + lines
        else:
            self.m.logs[name] = list(lines)
            self.log_first_len[name] = maxb

    def do_table(self, op):
        import h5py
        ctx = self.ctx
        if self.writer is None:
            return
        name = op["name"]
        rs = seeds.np_rng(op["dseed"], "tab")
        pr = seeds.rng(op["dseed"], "tab")
        t = gen.gen_table(rs, pr)
        if name in self.m.tables:
            # deliberately rejected call: an existing table cannot be written again
            snapshot = json.dumps(sorted(self.m.tables))
            try:
                self.writer.store_table(name, {n_: t["data"][n_] for n_ in t["data"].dtype.names})
            except Exception:
                ctx.probe("rejected_call")
                ctx.log("w", f"table {name} rejected")
                return
            ctx.violation("C01.reject.table_exists", f"store_table('{name}') on an existing table did not raise ({snapshot})")
        how = op["as"]
        with ctx.sut("C01.store_table"):
            if how in ("dict_int", "dict_lists"):
                # all-integer columns (arrays or python lists): tables hold floats, cells must keep their values
                for n_ in t["data"].dtype.names:
                    t["data"][n_] = np.round(t["data"][n_] * 3)
                cols = {n_: (t["data"][n_].astype(np.int64) if how == "dict_int" else [int(v) for v in t["data"][n_]])
                        for n_ in t["data"].dtype.names}
                self.writer.store_table(name, cols)
                t["attrs"] = {}
                ctx.probe("integer_table")
            elif how == "dict":
                self.writer.store_table(name, {n_: t["data"][n_] for n_ in t["data"].dtype.names})
                t["attrs"] = {}
            elif how == "rec":
                self.writer.store_table(name, np.rec.array(t["data"]))
                t["attrs"] = {}
            else:
                with h5py.File(self.ctx.scratch / "tabsrc.h5", "w") as hs:
                    dsrc = hs.create_dataset("tab", data=t["data"])
                    for kk, vv in t["attrs"].items():
                        dsrc.attrs[kk] = vv
                    self.writer.store_table(name, dsrc)
                if t["attrs"]:
                    ctx.probe("table_with_attrs")
        ctx.state_ops += 1
        ctx.log("w", f"table {name} {how}", seeds.short_hash(t["data"]))
        self.m.tables[name] = t

    def do_meta(self, op):
        ctx = self.ctx
        if self.writer is None:
            return
        meta = {}
        exp = {}
        for sec, key, rep in op["keys"]:
            if sec == "user":
                val = {"str": "hello wörld", "int": 7, "float": 2.5, "bool": True}[rep]
                meta.setdefault(sec, {})[key] = val
                exp[(sec, key)] = val
                continue
            typ = META_TYPES[sec][key]
            val, e = meta_value(sec, key, typ, op["dseed"], rep)
            meta.setdefault(sec, {})[key] = val
            exp[(sec, key)] = e
        with ctx.sut("C01.store_metadata"):
            self.writer.store_metadata(meta)
            if getattr(self, "shared_meta", None) is not None:
                # the caller's own dictionary, stored into the side file before
                self.writer.store_metadata(self.shared_meta)
                exp[("setup", "channel width")] = 25.0
                exp[("experiment", "sample")] = "shared"
        ctx.state_ops += 1
        ctx.log("w", f"meta {len(exp)}", seeds.short_hash(sorted((k, repr(v)) for k, v in exp.items())))
        for (sec, key), e in exp.items():
            self.m.meta.setdefault(sec, {})[key] = e
        # the writer brands the software version
        sv = self.m.meta.get("setup", {}).get("software version")
        if ("setup", "software version") in exp:
            self.m.meta["setup"]["software version"] = None  # checked loosely (branding chain)

    def do_reject(self, op):
        ctx = self.ctx
        if self.writer is None:
            return
        what = op["what"]
        hw = self.writer
        try:
            if what == "empty":
                hw.store_feature("deform", np.zeros(0))
            elif what == "unknown_feat":
                hw.store_feature("not_a_feature", np.arange(3.0))
            elif what == "unknown_trace":
                hw.store_feature("trace", {"fl9_raw": np.zeros((max(1, self.N), 11), dtype=np.int16)})
            elif what == "empty_contour":
                # an event without contour points is refused (HDF5 cannot store a dataset of zero rows in chunks) before anything
                # is written; the caller then goes on writing contours
                if self.mode == "replace" or flen(self.m.feats.get("contour")) <= 0:
                    return
                ctx.probe("refused_contour_then_more_contours")
                hw.store_feature("contour", [np.zeros((0, 2), dtype=np.int32)])
            elif what == "unknown_meta_key":
                hw.store_metadata({"setup": {"no such key": 1}})
            elif what == "unknown_meta_sec":
                hw.store_metadata({"nosection": {"a": 1}})
        except Exception:
            ctx.probe("rejected_call")
            ctx.log("w", f"reject {what} raised")
            return
        ctx.violation("C01.reject." + what, f"invalid call '{what}' did not raise", sig={"what": what})

    def do_close(self, op):
        ctx = self.ctx
        if self.writer is None:
            return
        with ctx.sut("C01.close"):
            if op["how"] == "exit":
                self.writer.__exit__(None, None, None)
            else:
                self.writer.close()
                ctx.probe("bare_close")
        if self.h5 is not None:
            self.h5.close()
            self.h5 = None
        self.writer = None
        self.last_close = op["how"]
        ctx.log("w", f"close {op['how']}")

    # ---- verification ----
    def do_verify(self, op=None):
        import h5py
        import dclab
        ctx = self.ctx
        if self.writer is not None or not self.exists:
            return
        m = self.m
        N = self.N
        with h5py.File(self.path, "r") as h:
            ev = h.get("events", {})
            # raw route
            for f, exp in m.feats.items():
                ctx.checked()
                if f not in ev:
                    ctx.violation("C01.feature.missing", f"feature {f} not in file", sig={"feat": f})
                self.compare_feature_raw(f, exp, ev[f])
            extra = [f for f in ev if f not in m.feats]
            if extra:
                ctx.violation("C01.feature.extra", f"unexpected features {extra}")
            # logs raw
            lg = h.get("logs", {})
            for name, lines in m.logs.items():
                ctx.checked()
                if name not in lg:
                    ctx.violation("C01.log.missing", f"log {name} missing")
                got = [x.decode("utf-8", "replace") if isinstance(x, bytes) else x for x in lg[name][:]]
                if got != lines:
                    self.log_violation(name, lines, got, "raw")
        if getattr(self, "shared_meta", None) is not None:
            with h5py.File(self.path, "r") as h:
                sv = h.attrs.get("setup:software version", "")
                sv = sv.decode() if isinstance(sv, bytes) else str(sv)
            ctx.checked()
            if "SideSoft" in sv:
                ctx.violation("C01.meta.value", f"setup:software version of this file is '{sv}': it carries the version chain of the other file "
                                                f"that the same metadata dictionary was stored into before", sig={"key": "software version", "what": "foreign_chain"})
        if not m.feats:
            ctx.log("v", "verify (no features)")
            return
        with ctx.sut("C01.reopen"):
            ds = dclab.new_dataset(self.path)
        try:
            for f, exp in m.feats.items():
                ctx.checked()
                with ctx.sut("C01.read", sig={"feat": f if f in NONSCALAR_POOL else "scalar"}):
                    self.compare_feature_dclab(f, exp, ds)
            for name, lines in m.logs.items():
                ctx.checked()
                with ctx.sut("C01.read_log"):
                    got = ds.logs[name]
                if list(got) != lines:
                    self.log_violation(name, lines, list(got), "dclab")
            for name, t in m.tables.items():
                ctx.checked()
                with ctx.sut("C01.read_table"):
                    tab = ds.tables[name]
                    arr = tab[:]
                    attrs = dict(tab.attrs)
                if arr.dtype.names != t["data"].dtype.names or any(
                        not np.array_equal(np.ravel(arr[c]), np.ravel(t["data"][c])) for c in t["data"].dtype.names):
                    ctx.violation("C01.table.cells", f"table {name} differs", sig={})
                for kk, vv in t["attrs"].items():
                    if kk not in attrs or attrs[kk] != vv:
                        ctx.violation("C01.table.attrs", f"table {name} attribute {kk} lost or changed: {attrs.get(kk)!r} != {vv!r}")
            for sec, d in m.meta.items():
                for key, e in d.items():
                    if e is None:
                        continue
                    ctx.checked()
                    got = ds.config.get(sec, {}).get(key, "<missing>") if sec in ds.config else "<missing>"
                    ok = (type(got) is type(e) or (isinstance(e, bool) and isinstance(got, (bool, np.bool_)))
                          or (isinstance(e, float) and isinstance(got, float)) or (isinstance(e, int) and not isinstance(e, bool) and isinstance(got, (int, np.integer)) and not isinstance(got, (bool, np.bool_))))
                    if sec == "user":
                        ok = True
                    if not ok or got != e:
                        ctx.violation("C01.meta.value", f"[{sec}]:{key} read back as {got!r} ({type(got).__name__}), expected {e!r} ({type(e).__name__})",
                                      sig={"sec": sec, "key": key})
            # event count and index at consistent cuts
            if self.consistent() and self.last_close == "exit" and N > 0:
                ctx.checked()
                ec = ds.config["experiment"].get("event count")
                if ec != N or len(ds) != N:
                    ctx.violation("C01.event_count", f"event count {ec} / len {len(ds)} but {N} events stored (features {sorted(m.feats)})",
                                  sig={"first_feat_sorted": sorted(m.feats)[0]})
                with ctx.sut("C01.read", sig={"feat": "index"}):
                    idx = np.asarray(ds["index"][:])
                if not np.array_equal(idx, np.arange(1, N + 1)):
                    ctx.violation("C01.index", f"index does not enumerate 1..{N}: {idx[:12]}")
        finally:
            ds.close()
        ctx.log("v", f"verify N={N} feats={len(m.feats)} logs={len(m.logs)} tables={len(m.tables)}")

    def log_violation(self, name, exp, got, route):
        sig = {"route": route}
        detail = f"log {name} ({route}): expected {len(exp)} lines, got {len(got)}"
        for i, (a, b) in enumerate(zip(exp, got)):
            if a != b:
                detail += f"; line {i}: {b[:60]!r} != {a[:60]!r}"
                sig["truncated"] = bool(a.encode("utf-8").startswith(b.encode("utf-8", "replace").rstrip(b"\xef\xbf\xbd"))) or a.startswith(b[:-1])
                break
        self.ctx.violation("C01.log.lines", detail, sig=sig)

    def compare_feature_raw(self, f, exp, obj):
        ctx = self.ctx
        if f == "contour":
            n = len(obj)
            if n != len(exp):
                ctx.violation("C01.feature.contour", f"contour group holds {n} events, expected {len(exp)}; names {sorted(obj.keys(), key=lambda s: int(s))[:8]}", sig={"feat": "contour", "what": "count"})
            for i, c in enumerate(exp):
                if str(i) not in obj or not np.array_equal(obj[str(i)][:], c):
                    ctx.violation("C01.feature.contour", f"contour event {i} differs or missing (names {sorted(obj.keys())[:8]})", sig={"feat": "contour", "what": "value"})
            return
        if f == "trace":
            for kk, v in exp.items():
                if kk not in obj or not np.array_equal(obj[kk][:], v):
                    ctx.violation("C01.feature.trace", f"trace {kk} differs", sig={"feat": "trace"})
            extra = [kk for kk in obj if kk not in exp]
            if extra:
                ctx.violation("C01.feature.trace", f"unexpected traces {extra}", sig={"feat": "trace"})
            return
        got = obj[:]
        if f == "index":
            e = np.arange(1, len(exp) + 1).astype(np.uint32)
        elif f == "mask":
            e = np.asarray(exp, dtype=np.uint8) * 255
        else:
            e = np.asarray(exp).astype(expected_dtype(f, exp))
        if got.dtype != e.dtype:
            ctx.violation("C01.feature.dtype", f"{f}: stored dtype {got.dtype}, expected {e.dtype}", sig={"feat": f})
        if got.shape != e.shape or not np.array_equal(got, e, equal_nan=(e.dtype.kind == "f")):
            bad = "shape" if got.shape != e.shape else str(np.flatnonzero(~((got == e) | ((got != got) & (e != e))).reshape(len(e), -1).all(axis=1))[:8])
            ctx.violation("C01.feature.value", f"{f}: stored data differ (events {bad}; shapes {got.shape} vs {e.shape})",
                          sig={"feat": f if f in NONSCALAR_POOL else "scalar"})

    def compare_feature_dclab(self, f, exp, ds):
        ctx = self.ctx
        if f not in ds:
            ctx.violation("C01.feature.missing", f"feature {f} not offered by dclab", sig={"feat": f})
        if f == "contour":
            for i in (0, len(exp) - 1, len(exp) // 2):
                if not np.array_equal(ds["contour"][i], exp[i]):
                    ctx.violation("C01.feature.contour", f"contour {i} differs via dclab", sig={"feat": "contour", "what": "dclab"})
            return
        if f == "trace":
            for kk, v in exp.items():
                if not np.array_equal(ds["trace"][kk][:], v):
                    ctx.violation("C01.feature.trace", f"trace {kk} differs via dclab", sig={"feat": "trace"})
            return
        if self.t["knobs"].get("dtype_first") and f not in NONSCALAR_POOL and f != "index":
            # (the lossy conversion is the caller's; what the dataset delivers afterwards must be the stored data)
            with warnings.catch_warnings():
                warnings.simplefilter("ignore")
                np.asarray(ds[f], dtype=np.float32 if np.asarray(exp).dtype.kind == "f" else np.uint8)
            ctx.probe("first_access_with_lossy_dtype")
        got = ds[f][:]
        got = np.asarray(got)
        if f == "index":
            e = np.arange(1, len(exp) + 1)
        elif f == "mask":
            e = np.asarray(exp, dtype=bool)
            if got.dtype != bool:
                ctx.violation("C01.feature.dtype", f"mask read back as {got.dtype}", sig={"feat": "mask"})
        else:
            e = np.asarray(exp).astype(expected_dtype(f, exp))
        if got.shape != e.shape or not np.array_equal(got, e, equal_nan=(e.dtype.kind == "f")):
            ctx.violation("C01.feature.value", f"{f}: data read through dclab differ", sig={"feat": f if f in NONSCALAR_POOL else "scalar", "route": "dclab"})


def run(trace, ctx):
    import dclab
    seams.set_knob_chunk_bytes(trace["knobs"]["chunk_bytes"])
    if "tmp_shaped" in trace["feats"]:
        dclab.register_temporary_feature("tmp_shaped", is_scalar=False)
        side = trace["knobs"].get("side_shape")
        if side:
            # (temporary features carry no shape of their own: each file may hold events of another shape)
            from dclab.rtdc_dataset.writer import RTDCWriter
            sdata = seeds.np_rng(ctx.seed, "side").normal(size=[3] + list(side))
            with ctx.sut("C01.side_file"):
                with RTDCWriter(ctx.scratch / "side.rtdc", mode="reset") as hw:
                    hw.store_metadata({"setup": {"software version": "ShapeIn 2.2.2.4"}, "experiment": {"sample": "s", "run index": 1}})
                    hw.store_feature("deform", np.linspace(0.01, 0.02, 3))
                    hw.store_feature("tmp_shaped", sdata)
            ctx.probe("side_file_with_other_event_shape")
    shared = None
    if trace["knobs"].get("shared_meta"):
        import h5py
        from dclab.rtdc_dataset.writer import RTDCWriter
        shared = {"setup": {"channel width": 25.0}, "experiment": {"sample": "shared"}}
        with h5py.File(ctx.scratch / "side_meta.rtdc", "w") as h:
            h.attrs["setup:software version"] = "SideSoft 1.0"
        with ctx.sut("C01.side_file"):
            with RTDCWriter(ctx.scratch / "side_meta.rtdc", mode="append") as hw:
                hw.store_metadata(shared)
                hw.store_feature("deform", np.linspace(0.01, 0.02, 3))
        ctx.probe("metadata_dict_shared_with_other_file")
    mach = Machine(trace, ctx, ctx.scratch / "w.rtdc")
    mach.shared_meta = shared
    while True:
        op = ctx.next_op(mach.gen_op, max_ops=trace.get("max_ops", 20))
        if op is None:
            break
        mach.execute(op)
    # final: close and verify
    if mach.writer is not None:
        mach.do_close({"how": "exit"})
    mach.do_verify()
    ctx.info["sample"] = {"knobs": trace["knobs"], "feats": trace["feats"], "ops": (trace.get("ops") or [])[:10],
                          "n_ops": len(trace.get("ops") or []), "events": mach.N}


def simplify(trace):
    """candidate simplifications: fewer features, smaller rounds, merged parts"""
    feats = trace.get("feats") or []
    for f in list(feats):
        if len(feats) > 1:
            t = dict(trace)
            t["feats"] = [x for x in feats if x != f]
            yield t
    ops = trace.get("ops") or []
    for i, op in enumerate(ops):
        if op.get("k") == "round":
            if op["n"] > 1:
                t = dict(trace)
                o2 = dict(op)
                o2["n"] = max(1, op["n"] // 2)
                t["ops"] = ops[:i] + [o2] + ops[i + 1:]
                yield t
            # merge parts: one call per feature
            fs = list(dict.fromkeys(x[0] for x in op["seq"]))
            if len(op["seq"]) > len(fs):
                t = dict(trace)
                o2 = dict(op)
                o2["seq"] = [[f, op["n"]] for f in fs]
                t["ops"] = ops[:i] + [o2] + ops[i + 1:]
                yield t
        if op.get("k") == "log" and op.get("nlines", 1) > 1:
            t = dict(trace)
            o2 = dict(op)
            o2["nlines"] = 1
            t["ops"] = ops[:i] + [o2] + ops[i + 1:]
            yield t
