"""C10 — command-line tasks never leave a partial file at the output path.

World A (real files on tmpfs).  One run = one workload (task, inputs, options,
pre-state); inside it every intercepted mutating call of the task is a fault
point; the task is re-executed once per (fault point, fault kind) of the tier's
plan in a forked grandchild, so that a kill is a real process death."""
import json
import os
import pathlib
import shutil

import numpy as np

from dst import gen, seeds, seams, faultfs, h5digest

NAME = "C10"
PROPERTY = "C10"
LEVEL = "fault_enumeration"
EVALS_FROM_COUNTER = True
RULE = ("one evaluation = one execution of a CLI task with one fault plan (fault kind - I/O error before/after the call, process "
        "kill before/after it, KeyboardInterrupt instead of it, I/O error at it and at every later point (full disk) or at the next 2..5 points (burst), torn close of a temporary file (half flushed, ENOSPC) - at fault point k; "
        "fault points = every outermost h5py Dataset/Group/Attribute/File mutating call, h5o.copy, file open/close, "
        "pathlib/os rename/unlink/mkdir of the task, numbered in execution order); thorough also crash->restart->crash "
        "sequences.  distinct_nontrivial = distinct (task, fault kind, fault-point label class) triples whose fault "
        "actually fired (process died / error raised at that point).  One 'run' = one workload = task x generated "
        "inputs x options x pre-state (clean, stale complete output, stale temp file, both).")
STATE_MEASURE = "distinct (task, prestate, fault kind, label class, outcome class) tuples"
PROBES = ["failed_task_repeated_in_process", "failed_task_followed_by_unrelated_task_in_process", "kill_between_last_write_and_rename", "kill_after_rename", "stale_output_survived_crash",
          "stale_temp_present_at_start", "task_raised_on_injected_error", "restart_after_crash_succeeded",
          "restart_after_crash_failed", "multi_output_partial_rename", "crash_restart_sequence", "task_refuses_prestate", "restart_judged",
          "partial_leftover_at_output_path", "partial_leftover_untouched_before_start",
          "output_path_is_symlink_to_input"]
COMPONENTS = {
    "real": ["dclab.cli.* tasks", "dclab.rtdc_dataset.* (writer, export, copier, fmt_hdf5, fmt_tdms)",
             "h5py/HDF5 + hdf5plugin writing real files on tmpfs", "process death (os._exit in a forked grandchild)",
             "pathlib/os rename, unlink"],
    "stub": ["wall clock (virtual)", "uuid/random identifiers (seeded)", "dclab version string (0.99.0)"],
}
ASSUMPTIONS = [
    "faults are injected at the h5py/pathlib/os call boundary, not inside the HDF5 library or the kernel",
    "a process kill leaves the page cache intact (no power-loss model); the property's fault model is I/O error and process kill",
    "PYTHONHASHSEED pinned to 0 (condense iterates a set, which decides fault-point numbering)",
    "the reference output of a workload is the output of its fault-free execution under the same virtual clock and identity streams",
]

TASKS = ["compress", "repack", "condense", "join", "split", "tdms2rtdc"]
# fixtures without video (reading an .avi spawns ffmpeg: seconds per execution)
TDMS_FIXTURES = ["fmt-tdms_2fl-no-image_2017", "fmt-tdms_shapein-2.0.1-no-image_2017", "fmt-tdms_minimal_2016"]
# executions per workload in the quick tier (a join or a tdms conversion costs 0.2-0.5 s each)
QUICK_CAP = {"compress": 70, "repack": 70, "condense": 50, "split": 50, "join": 26, "tdms2rtdc": 22}
KINDS = ["kill_before", "kill_after", "err_before", "err_after"]
PARTIAL_LEFTOVER = b"\x89HDF\r\n\x1a\n" + b"partial-leftover" * 30
CRUCIAL = ("file.close", "path.rename", "path.unlink", "file.open", "path.replace", "os.", "shutil.", "path.mkdir")


def plan(tier):
    if tier == "quick":
        return {"runs": 96, "budget_s": 45, "run_timeout_s": 300, "det_pairs": 6}
    return {"runs": 600, "budget_s": 600, "run_timeout_s": 2400, "det_pairs": 2}


def make_trace(seed, tier, idx=None):
    r = seeds.rng(seed, "plan")
    # the task cycles with the run index so that every task appears even in small batches
    task = TASKS[idx % len(TASKS)] if idx is not None else TASKS[r.randrange(len(TASKS))]
    t = {
        "task": task,
        "n": r.choice([5, 9, 17, 33, 60]) if tier == "thorough" else r.choice([5, 9, 17]),
        "prestate": r.choice(["clean", "clean", "stale_out", "stale_temp", "both"] + (["partial_out", "symlink_out"] if task not in ("split", "tdms2rtdc") else [])),
        "chunk_bytes": r.choice([1024 ** 2, 1024 ** 2, 640, 960, 4000]),
        "contour": r.random() < 0.3,
        "trace": r.random() < 0.4,
        "tables": r.randrange(0, 2),
        "logs": r.randrange(0, 3),
        "opts": {},
        "faults": None,   # None: enumerate by tier policy; else explicit list of sequences
        "ops": None,
    }
    if task == "repack":
        t["opts"] = {"strip_logs": r.random() < 0.3, "strip_basins": r.random() < 0.3}
    elif task == "condense":
        t["opts"] = {"store_ancillary_features": r.random() < 0.6, "store_basin_features": r.random() < 0.7}
    elif task == "join":
        t["n_inputs"] = r.choice([2, 2, 3])
    elif task == "split":
        t["parts"] = r.choice([2, 3, 4])
    elif task == "tdms2rtdc":
        t["tdms"] = r.choice(["single", "single", "dir"])
        t["fixture"] = r.sample(TDMS_FIXTURES[:2] if tier == "quick" else TDMS_FIXTURES, 2)
        t["opts"] = {"compute_features": r.random() < 0.25}
    t["basin"] = r.choice(["file", "internal", "both"]) if (task in ("compress", "repack", "condense", "split") and r.random() < 0.35) else None
    t["sample_seed"] = r.randrange(1 << 30)
    return t


# ---------------------------------------------------------------------------------
# workload construction
# ---------------------------------------------------------------------------------

class Workload:
    def __init__(self, trace, ctx):
        self.t = trace
        self.ctx = ctx
        self.root = ctx.scratch
        self.pristine = self.root / "pristine"
        self.work = self.root / "work"
        self.stale = self.root / "stale"
        self.pristine.mkdir()
        self.inputs = []      # relative names of input files (under work/)
        self.outputs = []     # requested output paths (relative to work/), filled after reference run
        self.out_arg = None
        self.build_inputs()

    def build_inputs(self):
        t, seed = self.t, self.ctx.seed
        task = t["task"]
        d = self.pristine
        if task == "tdms2rtdc":
            if t["tdms"] == "single":
                gen.unzip_fixture(t["fixture"][0], d / "tin")
            else:
                gen.unzip_fixture(t["fixture"][0], d / "tin" / "a")
                gen.unzip_fixture(t["fixture"][1], d / "tin" / "b")
            self.inputs = sorted(str(p.relative_to(d)) for p in (d / "tin").rglob("*") if p.is_file())
            return
        n_in = t.get("n_inputs", 1)
        for i in range(n_in):
            m = gen.gen_model(seeds.H(seed, "input", i), t["n"], uid=i, contour=t["contour"], trace=t["trace"],
                              fl=t["trace"], n_logs=t["logs"], n_tables=t["tables"],
                              scalars=["area_um", "deform", "bright_avg", "pos_x", "time", "frame", "index_online"])
            m.meta["experiment"]["time"] = f"10:{11 + 7 * ((i * 2 + 1) % 3):02d}:12"
            m.meta["experiment"]["run index"] = i + 1
            name = f"in{i}.rtdc"
            gen.write_model(m, d / name, compression=["zstd", "none", "gzip"][seeds.H(seed, "cmp", i) % 3])
            self.inputs.append(name)
        if t.get("basin"):
            # a second file that refers to in0 as a file basin (relative location) and
            # carries an internal basin
            import h5py
            from dclab.rtdc_dataset.writer import RTDCWriter
            m = gen.gen_model(seeds.H(seed, "input", 0), t["n"], uid=0, image=False, mask=False,
                              scalars=["deform", "time", "frame"], n_logs=1)
            with RTDCWriter(d / "ref.rtdc", mode="reset") as hw:
                hw.store_metadata(m.meta)
                for f, v in m.feats.items():
                    hw.store_feature(f, v)
                if t.get("basin") in ("file", "both"):
                    hw.store_basin(basin_name="origin", basin_type="file", basin_format="hdf5",
                                   basin_locs=["in0.rtdc"], basin_feats=["area_um", "pos_x"], verify=False)
                if t.get("basin") in ("internal", "both"):
                    hw.store_basin(basin_name="internal", basin_type="internal", basin_format="h5dataset",
                                   basin_locs=["basin_events"], basin_feats=["userdef1"],
                                   basin_map=np.arange(t["n"], dtype=np.uint64) % 3,
                                   internal_data={"userdef1": np.arange(3, dtype=np.float64)})
            self.inputs.append("ref.rtdc")
            self.main_input = "ref.rtdc"
        else:
            self.main_input = self.inputs[0]

    # -- the call ---------------------------------------------------------------
    def call_task(self):
        """Execute the task (inside the grandchild, cwd = work/)."""
        from dclab import cli
        t = self.t
        task = t["task"]
        w = self.work
        if task == "compress":
            cli.compress(path_in=w / self.main_input, path_out=w / "out.rtdc")
        elif task == "repack":
            cli.repack(path_in=w / self.main_input, path_out=w / "out.rtdc", **t["opts"])
        elif task == "condense":
            cli.condense(path_in=w / self.main_input, path_out=w / "out.rtdc", **t["opts"])
        elif task == "join":
            ins = [w / f"in{i}.rtdc" for i in range(t["n_inputs"])]
            r = seeds.rng(self.ctx.seed, "join-order")
            r.shuffle(ins)
            cli.join(paths_in=ins, path_out=w / "out.rtdc")
        elif task == "split":
            n = t["n"]
            per = max(1, -(-n // t["parts"]))
            cli.split(path_in=w / self.main_input, path_out=w / "sout", split_events=per)
        elif task == "tdms2rtdc":
            if t["tdms"] == "single":
                tin = sorted((w / "tin").glob("*.tdms"))
                tin = [p for p in tin if not p.name.endswith("_traces.tdms")][0]
                cli.tdms2rtdc(path_tdms=tin, path_rtdc=w / "out.rtdc", **t["opts"])
            else:
                cli.tdms2rtdc(path_tdms=w / "tin", path_rtdc=w / "tout", **t["opts"])

    # -- pre-state ----------------------------------------------------------------
    def restore_inputs(self):
        if self.work.exists():
            shutil.rmtree(self.work)
        shutil.copytree(self.pristine, self.work)
        if self.t["task"] == "split":
            (self.work / "sout").mkdir()

    def apply_prestate(self):
        ps = self.t["prestate"]
        if ps in ("stale_out", "both"):
            for rel in self.outputs:
                src = self.stale / rel
                dst = self.work / rel
                dst.parent.mkdir(parents=True, exist_ok=True)
                shutil.copyfile(src, dst)
        if ps == "symlink_out":
            # the requested output path is a symbolic link to the input (a directory of links to raw data that are to be
            # replaced by processed copies)
            for rel in self.outputs:
                dst = self.work / rel
                dst.parent.mkdir(parents=True, exist_ok=True)
                if dst.exists() or dst.is_symlink():
                    dst.unlink()
                dst.symlink_to(self.work / self.main_input)
            self.ctx.probe("output_path_is_symlink_to_input")
        if ps == "partial_out":
            # something unloadable already sits at the output path (the remains of another program's aborted attempt)
            for rel in self.outputs:
                dst = self.work / rel
                dst.parent.mkdir(parents=True, exist_ok=True)
                dst.write_bytes(PARTIAL_LEFTOVER)
            self.ctx.probe("partial_leftover_at_output_path")
        if ps in ("stale_temp", "both"):
            for rel in self.outputs:
                p = (self.work / rel).with_suffix(".rtdc~")
                p.parent.mkdir(parents=True, exist_ok=True)
                p.write_bytes(b"\x89HDF\r\n\x1a\n" + b"stale-temp" * 20)
            self.ctx.probe("stale_temp_present_at_start")

    def snapshot(self):
        """relative path -> sha of every file under work/."""
        out = {}
        for p in sorted(self.work.rglob("*")):
            if p.is_file():
                out[str(p.relative_to(self.work))] = h5digest.file_sha(p)
        return out


def _grandchild(wl, planmap, report_path, clock_start, follow=False):
    """fork; in the grandchild run the task under the fault seam; returns (exit status, report)."""
    ctx = wl.ctx
    pid = os.fork()
    if pid == 0:
        code = 0
        try:
            # identical virtual clock and identity streams for every execution of this workload
            clock = seams.install_common(ctx.seed)
            clock.now = clock_start
            seams.set_knob_chunk_bytes(wl.t["chunk_bytes"])
            os.chdir(wl.work)
            devnull = os.open(os.devnull, os.O_WRONLY)
            os.dup2(devnull, 1)
            seam = faultfs.FaultSeam(plan=planmap, errno_pick=seeds.H(ctx.seed, "errno") % 4)
            seam.install()
            rep = {"raised": None}
            try:
                wl.call_task()
            except BaseException as e:  # noqa: the task's failure mode is data here
                rep["raised"] = type(e).__name__
                rep["msg"] = str(e)[:300]
                rep["injected"] = isinstance(e, faultfs.InjectedIOError) or "injected fault" in str(e)
                code = 1
            seam.enabled = False
            if follow == "retry" and code == 1:
                # the same process calls the same task again with the same arguments (nothing is injected any more)
                try:
                    wl.call_task()
                    rep["followed"] = "retry_ok"
                except BaseException as e2:  # noqa
                    rep["followed"] = f"retry raised {type(e2).__name__}: {str(e2)[:200]}"
            elif follow and code == 1:
                # the same process (a GUI, a script that handles several files) goes on with another, unrelated task that
                # writes somewhere else and succeeds
                try:
                    from dclab import cli
                    src = wl.work / wl.main_input
                    if src.suffix == ".rtdc" and src.exists():
                        (wl.work / "other").mkdir(exist_ok=True)
                        cli.compress(path_in=src, path_out=wl.work / "other" / "unrelated.rtdc")
                        rep["followed"] = True
                except BaseException as e2:  # noqa
                    rep["followed"] = f"raised {type(e2).__name__}: {str(e2)[:200]}"
            rep["n"] = seam.n
            rep["labels"] = seam.labels
            rep["fired"] = seam.fired
            with open(report_path, "w") as f:
                json.dump(rep, f)
        except BaseException:
            code = 3
            try:
                import traceback
                with open(report_path, "w") as f:
                    json.dump({"harness": traceback.format_exc()}, f)
            except Exception:
                pass
        finally:
            os._exit(code)
    _, status = os.waitpid(pid, 0)
    rep = None
    if os.path.exists(report_path):
        with open(report_path) as f:
            rep = json.load(f)
        os.unlink(report_path)
    if os.WIFSIGNALED(status):
        return ("signal", os.WTERMSIG(status)), rep
    return ("exit", os.WEXITSTATUS(status)), rep


def label_class(label):
    """fault-point label without the object/file specific part."""
    parts = label.split(" ")
    head = parts[0]
    if head.startswith("ds.") or head.startswith("grp.") or head == "h5o.copy":
        # keep top-level group of the object
        obj = parts[1] if len(parts) > 1 else ""
        top = obj.strip("/").split("/")[0] if obj else ""
        return f"{head} {top}"
    if head.startswith("attr."):
        return head
    return head


def select_plans(labels, tier, r, task=None):
    """Fault plans (list of sequences, each a list of {at, kind}) for one workload."""
    n = len(labels)
    plans = []
    if tier == "thorough":
        ks = list(range(n))
        exhaustive = True
        if n * len(KINDS) > 1400:
            # very long tasks (ragged contour data): all crucial points, the tail and an even subsample
            keep = set(k for k, lab in enumerate(labels) if lab.startswith(CRUCIAL))
            keep.update(range(max(0, n - 40), n))
            rest = [k for k in ks if k not in keep]
            step = -(-len(rest) // max(1, 350 - len(keep)))
            keep.update(rest[r.randrange(step)::step])
            ks = sorted(keep)
            exhaustive = False
        for k in ks:
            for kind in KINDS:
                plans.append([{"at": k, "kind": kind}])
        for k in ks[::max(1, len(ks) // 50)]:
            plans.append([{"at": k, "kind": "err_persist"}])
            plans.append([{"at": k, "kind": "err_persist_w"}])
            plans.append([{"at": k, "kind": r.choice(["err_burst2", "err_burst3", "err_burst5"])}])
        for k, lab in enumerate(labels):
            if lab.startswith("file.close") and lab.endswith("~"):
                plans.append([{"at": k, "kind": "torn_close"}])
        for k in ks[::max(1, len(ks) // 40)]:
            plans.append([{"at": k, "kind": "intr_before"}])
            plans.append([{"at": k, "kind": "intr_before"}, {"at": -1, "kind": "none"}])
        # crash -> restart -> crash sequences
        for _ in range(min(40, n)):
            seq = [{"at": r.randrange(n), "kind": r.choice(["kill_before", "kill_after"])},
                   {"at": r.randrange(n), "kind": r.choice(KINDS)}]
            if r.random() < 0.3:
                seq.append({"at": r.randrange(n), "kind": "kill_before"})
            plans.append(seq)
        for k in range(0, n, max(1, n // 60)):
            plans.append([{"at": k, "kind": "err_before"}, {"at": -1, "kind": "none"}])
            plans.append([{"at": k, "kind": "kill_after"}, {"at": -1, "kind": "none"}])
        return plans, exhaustive
    cap = QUICK_CAP.get(task, 60)
    crucial = [k for k, lab in enumerate(labels) if lab.startswith(CRUCIAL)]
    lim = max(6, cap // 4)
    if len(crucial) > lim:
        crucial = crucial[:lim // 3] + r.sample(crucial[lim // 3:-(lim // 3)], lim - 2 * (lim // 3)) + crucial[-(lim // 3):]
    ks = set(crucial)
    # the last points are where rename-before-last-write bugs live
    ks.update(range(max(0, n - max(4, cap // 8)), n))
    others = [k for k in range(n) if k not in ks]
    want = max(3, cap // 4)
    if others:
        step = max(1, -(-len(others) // want))
        ks.update(others[r.randrange(step)::step])
    for k in sorted(ks):
        plans.append([{"at": k, "kind": "kill_before"}])
    for k in r.sample(sorted(ks), min(max(2, cap // 10), len(ks))):
        plans.append([{"at": k, "kind": "kill_after"}])
    for k in r.sample(range(n), min(max(3, cap // 6), n)):
        plans.append([{"at": k, "kind": "err_before"}])
    for k in r.sample(range(n), min(max(2, cap // 10), n)):
        plans.append([{"at": k, "kind": "err_after"}])
    for k, lab in enumerate(labels):
        # closing (flushing) a temporary file is where a full disk shows: an error there, before and after the call
        if lab.startswith("file.close") and lab.endswith("~"):
            plans.append([{"at": k, "kind": "err_before"}])
            plans.append([{"at": k, "kind": "err_after"}])
            plans.append([{"at": k, "kind": "torn_close"}])
    for k in r.sample(range(n), min(max(2, cap // 12), n)):
        # the user interrupts the task (KeyboardInterrupt is not an Exception: clean-up code written with
        # `except Exception` does not run)
        plans.append([{"at": k, "kind": "intr_before"}])
    for k in r.sample(range(n), min(max(3, cap // 8), n)):
        # the disk is full from this point on: every later intercepted call fails as well (also those of clean-up code)
        plans.append([{"at": k, "kind": r.choice(["err_persist", "err_persist_w", "err_burst2", "err_burst2", "err_burst3", "err_burst5"])}])
    for _ in range(2):
        plans.append([{"at": r.randrange(n), "kind": "kill_before"}, {"at": r.randrange(n), "kind": r.choice(KINDS)}])
    # a failed run followed, in the same process, by an unrelated task that succeeds (what the failed one left must stay what it is)
    for _ in range(max(3, cap // 12)):
        plans.append([{"at": r.randrange(n), "kind": r.choice(["err_before", "err_after", "err_before", "intr_before"]), "follow": True}])
    for _ in range(max(3, cap // 12)):
        # ... or by a repetition of the same call in the same process
        plans.append([{"at": r.randrange(n), "kind": r.choice(["err_before", "err_after", "err_before", "intr_before"]), "follow": "retry"}])
    # a failed or killed run followed by a fault-free restart of the same task (stale temporary files of the first run)
    for _ in range(max(3, cap // 12)):
        plans.append([{"at": r.randrange(n), "kind": r.choice(["err_before", "err_after", "err_before", "kill_before"])},
                      {"at": -1, "kind": "none"}])
    return plans, False


def run(trace, ctx):
    t = trace
    seams.set_knob_chunk_bytes(t["chunk_bytes"])
    wl = Workload(t, ctx)
    task = t["task"]
    clock_start = seams.EPOCH0 + (seeds.H(ctx.seed, "clock") % 86400)
    report = str(ctx.scratch / "gc_report.json")
    ctx.log("wl", f"task={task} prestate={t['prestate']} inputs={len(wl.inputs)}")

    # ---- reference (fault-free) run on a clean directory ----
    wl.restore_inputs()
    before = wl.snapshot()
    st, rep = _grandchild(wl, {}, report, clock_start)
    if st != ("exit", 0) or not rep or rep.get("raised"):
        raise RuntimeError(f"reference run of {task} failed: {st} {rep}")
    labels = rep["labels"]
    after = wl.snapshot()
    outputs = sorted(k for k in after if k not in before)
    ctx.state_ops += 1
    if not outputs:
        raise RuntimeError(f"reference run of {task} produced no output")
    for k in outputs:
        if not k.endswith(".rtdc"):
            ctx.violation("C10.extra_file", f"fault-free {task} left an unexpected file '{k}'",
                          sig={"task": task, "when": "fault-free"})
    # inputs untouched by the fault-free run
    ctx.checked()
    for k, sha in before.items():
        if after.get(k) != sha:
            ctx.violation("C10.input_modified", f"fault-free {task} modified input '{k}'",
                          sig={"task": task, "when": "fault-free"})
    wl.outputs = outputs
    ref_digest = {k: h5digest.h5_digest(wl.work / k) for k in outputs}
    for k in outputs:
        (wl.root / "ref" / k).parent.mkdir(parents=True, exist_ok=True)
        shutil.copyfile(wl.work / k, wl.root / "ref" / k)
    # the reference output must be loadable with dclab
    import dclab
    for k in outputs:
        with dclab.new_dataset(wl.work / k) as ds:
            for f in ds.features_innate:
                if f == "trace":
                    for tn in ds["trace"]:
                        ds["trace"][tn][:]
                elif f == "contour":
                    len(ds["contour"])
                else:
                    ds[f][:]
    # (the reference digest itself is not logged: exported basin definitions contain the absolute scratch path,
    #  which depends on the process id; within one run reference and faulted executions share the path)
    ctx.log("ref", f"N={len(labels)} outputs={len(outputs)}")
    # stale complete outputs: the reference outputs of the same task at an earlier virtual time
    stale_digest = {}
    if t["prestate"] in ("stale_out", "both"):
        st2, rep2 = _grandchild(wl, {}, report, clock_start - 4000.0)
        if st2 != ("exit", 0):
            raise RuntimeError("stale-output run failed")
        wl.stale.mkdir(exist_ok=True)
        for k in outputs:
            (wl.stale / k).parent.mkdir(parents=True, exist_ok=True)
            shutil.copyfile(wl.work / k, wl.stale / k)
            stale_digest[k] = h5digest.h5_digest(wl.stale / k)

    # ---- labels of the fault-free execution from the run's pre-state ----
    if t["prestate"] != "clean":
        wl.restore_inputs()
        wl.apply_prestate()
        st3, rep3 = _grandchild(wl, {}, report, clock_start)
        if not rep3 or "labels" not in rep3:
            raise RuntimeError(f"pre-state reference run failed: {st3} {rep3}")
        labels = rep3["labels"]
        if st3 == ("exit", 0):
            for rel in outputs:
                if h5digest.h5_digest(wl.work / rel) != ref_digest[rel]:
                    raise RuntimeError("pre-state reference output differs from the clean reference output: "
                                       + str(h5digest.h5_items(wl.work / rel)[:0]) + rel)
        else:
            ctx.probe("task_refuses_prestate")
        ctx.log("ref-prestate", f"N={len(labels)} status={st3}")

    # ---- fault plans ----
    if t.get("faults") is None:
        plans, exhaustive = select_plans(labels, ctx.tier, ctx.rng("faults"), task)
    else:
        plans, exhaustive = t["faults"], False
    ctx.info["exhaustive"] = exhaustive
    first_temp_open = min((i for i, l in enumerate(labels) if l.startswith("file.open[") and not l.startswith("file.open[r]") and l.endswith("~")), default=-1)
    items = set()
    allowed_inputs = set(before)

    for seq in plans:
        wl.restore_inputs()
        wl.apply_prestate()
        base = wl.snapshot()
        crashed_before = False
        for step_i, f in enumerate(seq):
            k, kind = int(f["at"]), f["kind"]
            st, rep = _grandchild(wl, ({k: kind} if kind != "none" else {}), report, clock_start, follow=f.get("follow") or False)
            ctx.count("evaluations")
            lab = (labels[k] if 0 <= k < len(labels) else "(beyond end)") if kind != "none" else "(fault-free restart)"
            if kind == "none":
                ctx.probe("restart_judged")
            fired = (st == ("exit", 137)) or bool(rep and rep.get("fired"))
            if rep and rep.get("harness"):
                raise RuntimeError("grandchild harness failure: " + rep["harness"])
            if st[0] == "signal":
                raise RuntimeError(f"grandchild died with signal {st[1]} at plan {f}")
            outcome = "killed" if st == ("exit", 137) else ("raised" if st == ("exit", 1) else "completed")
            if fired:
                ctx.fault(kind)
                items.add(f"{task}|{kind}|{label_class(lab)}")
            if step_i > 0:
                ctx.probe("crash_restart_sequence")
            ctx.log("fault", f"{k}:{kind}:{label_class(lab)}", outcome)
            if rep and rep.get("followed") is True:
                ctx.probe("failed_task_followed_by_unrelated_task_in_process")
            if rep and rep.get("followed") == "retry_ok":
                ctx.probe("failed_task_repeated_in_process")
                # the repetition returned normally: every output must be the complete result
                for rel in outputs:
                    p_ = wl.work / rel
                    ctx.checked()
                    if not p_.exists() or h5digest.h5_digest(p_) != ref_digest[rel]:
                        ctx.violation("C10.partial_output",
                                      f"{task}: after {kind} at point {k} ({lab}) the task was called again in the same process and returned "
                                      f"normally, but output '{rel}' is {'missing' if not p_.exists() else 'not the complete result'}",
                                      sig=dict(task=task, kind=kind, label=label_class(lab), prestate=t["prestate"], retry=True),
                                      trace=dict(t, faults=[seq[:step_i + 1]]))
            elif rep and str(rep.get("followed", "")).startswith("retry raised"):
                ctx.probe("in_process_repetition_refused")
            vtrace = dict(t)
            vtrace["faults"] = [seq[:step_i + 1]]
            sig = {"task": task, "kind": kind, "label": label_class(lab), "prestate": t["prestate"]}
            now = wl.snapshot()
            ctx.checked()
            # (3) inputs byte-identical
            for name in allowed_inputs:
                if now.get(name) != before[name]:
                    ctx.violation("C10.input_modified",
                                  f"{task}: input '{name}' changed or vanished after {kind} at point {k} ({lab})",
                                  sig=sig, trace=vtrace)
            # (1) each requested output path absent or complete
            present = 0
            for rel in outputs:
                p = wl.work / rel
                if not p.exists():
                    continue
                present += 1
                ok = False
                try:
                    dg = h5digest.h5_digest(p)
                    ok = dg == ref_digest[rel] or (rel in stale_digest and dg == stale_digest[rel])
                    if ok and dg != ref_digest[rel]:
                        ctx.probe("stale_output_survived_crash")
                    why = ""
                    if not ok:
                        why = "differs from the complete result: " + "; ".join(h5digest.h5_diff(p, wl.root / "ref" / rel)[:4])
                except Exception as e:  # not even an HDF5 file
                    why = f"cannot be opened: {type(e).__name__}: {e}"
                if not ok and t["prestate"] == "symlink_out" and kind != "none" and p.is_symlink() and k <= first_temp_open:
                    # the run ended before it began to write: the link it found is still there
                    ctx.probe("partial_leftover_untouched_before_start")
                    ok = True
                if (not ok and t["prestate"] == "partial_out" and kind != "none" and p.read_bytes() == PARTIAL_LEFTOVER
                        and k <= first_temp_open):
                    # the run ended before it began to write: the leftover it found is still what it was
                    ctx.probe("partial_leftover_untouched_before_start")
                    ok = True
                if not ok:
                    ctx.violation("C10.partial_output",
                                  f"{task}: output path '{rel}' exists after {kind} at point {k} ({lab}) [{outcome}] but {why}",
                                  sig=sig, trace=vtrace)
            if 0 < present < len(outputs):
                ctx.probe("multi_output_partial_rename")
            # (2) nothing else appeared, except temporary names
            for name in now:
                if name in allowed_inputs or name in outputs:
                    continue
                if name.endswith(".rtdc~"):
                    continue
                if f.get("follow") and name.startswith("other"):
                    continue
                ctx.violation("C10.extra_file",
                              f"{task}: unexpected file '{name}' after {kind} at point {k} ({lab})",
                              sig=sig, trace=vtrace)
            # (4) a swallowed error must not change the result
            if outcome == "completed" and kind.startswith(("err", "intr", "torn")) and fired:
                if kind.startswith("err_persist"):
                    ctx.probe("persistent_error_swallowed")
                for rel in outputs:
                    p = wl.work / rel
                    if not p.exists() or h5digest.h5_digest(p) != ref_digest[rel]:
                        ctx.violation("C10.error_swallowed",
                                      f"{task}: {kind} at point {k} ({lab}) was swallowed and the output differs from the complete result",
                                      sig=sig, trace=vtrace)
            if outcome == "raised" and fired:
                ctx.probe("task_raised_on_injected_error")
            # probes
            if outcome == "killed":
                last_write = max((i for i, l in enumerate(labels) if l.startswith(("ds.", "attr.", "grp.", "h5o."))), default=-1)
                first_rename = min((i for i, l in enumerate(labels) if l.startswith("path.rename")), default=10**9)
                kk = k + (1 if kind == "kill_after" else 0)
                if last_write < kk <= first_rename:
                    ctx.probe("kill_between_last_write_and_rename")
                if kk > first_rename:
                    ctx.probe("kill_after_rename")
            ctx.state(task, t["prestate"], kind, label_class(lab), outcome, present)
        # informational: does a fault-free restart succeed from the crash state?
        if ctx.rng("restart").random() < (0.15 if ctx.tier == "quick" else 0.05):
            st, rep = _grandchild(wl, {}, report, clock_start)
            ok = st == ("exit", 0) and all(
                (wl.work / rel).exists() and h5digest.h5_digest(wl.work / rel) == ref_digest[rel] for rel in outputs)
            ctx.probe("restart_after_crash_succeeded" if ok else "restart_after_crash_failed")
    ctx.info["distinct_items"] = sorted(items)
    ctx.info["sample"] = {"task": task, "prestate": t["prestate"], "opts": t["opts"], "n_events": t["n"],
                          "fault_points": len(labels), "plans_executed": len(plans),
                          "example_plans": plans[:3] + plans[-2:],
                          "example_labels": labels[:4] + ["..."] + labels[-6:]}
