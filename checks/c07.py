"""C07 — basin-provided features equal the origin's data for the mapped events.

World A.  A workload actor creates origin measurements, derives referrers from
them (filtered/unfiltered exports with basins from files and from hierarchy
children, chained; explicit store_basin calls with all kinds of maps, two
basins, internal basins; compress/repack copies) and reads features with many
access patterns; a file-system actor moves, renames, deletes and replaces
files.  Every value on disk encodes (provider, event), the model keeps for
every file and feature the (provider, event) pairs the property demands."""
import pathlib
import shutil
import traceback
import warnings

import numpy as np

from dst import seeds, seams
from dst.ctx import StopRun

NAME = "C07"
PROPERTY = "C07"
LEVEL = "exploration"
RULE = ("one evaluation = one seeded history (<= 14 operations, <= 18 files in 3 directories, origins of 5..60 events, referrers "
        "of <= 120 events, chains of depth <= 4): origins with identity-encoding scalar/image/mask/contour/trace data; exports "
        "(basins=True, filtered or not, features subset or none) from files and from hierarchy children of depth 1-2 under manual "
        "and box filters; store_basin referrers (unmapped, subset, superset with repeats, permutation, long maps, feature "
        "restrictions, explicit map names, two basins, internal basins, deliberately different own features); compress/repack "
        "copies; reads with integer, negative, slice, boolean mask, index array, [:], repeated np.asarray and len; file-system "
        "events (move together, move referrer, delete, rename, replace by another measurement). After every producing and every "
        "file-system operation the affected files are read completely, through the dataset and through each of its basins "
        "separately, and compared with the model. non-trivial = >= 1 referrer produced and >= 1 comparison; distinct = distinct "
        "event-log digests")
STATE_MEASURE = "distinct (producer, chain depth, mapping kind, feature kind, access kind / file-system situation) tuples"
PROBES = ["four_basins_alternating_maps", "access_repeated_after_transient_read_fault", "child_closed_source_still_used", "two_referrers_read_traces_interleaved", "child_reexported_after_equal_count_reselection", "result_mutated_in_place", "result_read_only", "chain_depth_3", "chain_depth_4", "child_export", "child_export_of_basin_file", "basin_only_export", "export_with_stored",
          "unfiltered_export", "box_filter", "map_superset", "map_permutation", "map_crosses_chunk", "two_basins", "two_basins_shared_map",
          "internal_basin", "explicit_mapname", "basin_feats_restricted", "precedence_checked", "moved_together",
          "moved_ref_only", "abs_location_still_resolves", "origin_deleted", "origin_renamed", "origin_replaced",
          "unavailable_confirmed", "tool_copy", "ambiguous_candidates", "asarray_twice", "dtype_first_read", "source_reused_after_export", "nonscalar_through_mapped",
          "available_after_move_together"]
COMPONENTS = {
    "real": ["dclab RTDCWriter.store_basin", "dclab export.hdf5 (basins branch)", "RTDC_HDF5 / RTDC_Hierarchy readers, basins_retrieve, "
             "Basin / BasinProxy / BasinProxyFeature / InternalH5DatasetBasin / HDF5Basin", "dclab.cli compress / repack (rtdc_copy)",
             "h5py/HDF5 on tmpfs, real directories and renames", "basin availability threads (real, file existence only)"],
    "stub": ["wall clock", "uuid/random identifiers (seeded)", "dclab version string"],
}
ASSUMPTIONS = [
    "where a file offers the same feature through several basins with different data (a referrer that overrides a feature, exported "
    "without that feature) every such provider is accepted; only data from none of them is a violation (which of equally ranked "
    "basins dclab asks first depends on the hash of the basin definition, i.e. on the path)",
    "a feature must be available when some stored location (absolute, or relative to the referrer's directory) points to the intended "
    "target and the run identifiers are compatible by dclab's documented rule (equal for unmapped, prefix for mapped basins); "
    "otherwise it may be unavailable, and if it is delivered it must still be the right data",
    "a referrer without any measurement identifier cannot reject a replaced origin (documented: 'no certainty'); for such referrers "
    "the measurement lying at a stored location is accepted as provider",
    "the run identifier of an exported file is read back from the file (dclab appends a random suffix); nothing else of the "
    "expectation is taken from what dclab wrote, maps are composed from the filter arrays that were applied",
    "'contour' is not judged where dclab may recompute it from an available 'mask' (in the file or inside a basin's target) "
    "because no basin that must resolve delivers it",
    "index arrays are increasing and boolean masks have at least one True entry (h5py restrictions that equally apply to stored features)",
    "replacement measurements and other origins never carry a run identifier that is a prefix of the referrer's identifier",
    "failures while building a hierarchy child are counted, not judged (C04); failures of compress/repack themselves are counted (C08)",
    "the repeated np.asarray access is reduced to one conversion where dclab's per-event route would cost more than 20000 element "
    "reads (n**levels through nested mapped basins)",
]

SCAL = ["pos_x", "pos_y", "size_x", "temp", "userdef1", "fl1_max"]
NONSC = ["image", "mask", "contour", "trace"]
ALLF = SCAL + NONSC
CODES = {f: i + 1 for i, f in enumerate(ALLF)}
TRACES = ["fl1_median", "fl1_raw"]
NDIRS = 3
MAX_FILES = 14
MAX_EVENTS = 120
ACCESS = ["int", "negint", "slice", "slice_step", "boolmask", "intarray", "full", "asarray2", "len", "dtype_first", "mutate"]


def plan(tier):
    if tier == "quick":
        return {"runs": 600, "budget_s": 45, "run_timeout_s": 180, "det_pairs": 3}
    return {"runs": 30000, "budget_s": 780, "run_timeout_s": 240, "det_pairs": 3}


def make_trace(seed, tier):
    r = seeds.rng(seed, "plan")
    return {"knobs": {"chunk_bytes": r.choice([1024 ** 2, 1024 ** 2, 640, 96, 64])},
            "max_ops": r.choice([5, 9, 14]), "ops": None}


# -----------------------------------------------------------------------------------
# identity-encoding data
# -----------------------------------------------------------------------------------

def fkind(f):
    return "scalar" if f in SCAL else f


def ident_range(pid, n):
    return np.column_stack([np.full(n, pid, dtype=np.int64), np.arange(n, dtype=np.int64)])


def values(f, ident):
    """Feature data for events with identities `ident` (n x 2: provider, event)."""
    ident = np.asarray(ident, dtype=np.int64).reshape(-1, 2)
    p, e = ident[:, 0], ident[:, 1]
    n = len(p)
    code = CODES[f]
    if f == "fl1_max":
        return (p * 10000 + code * 100 + e).astype(np.uint32)
    if f in SCAL:
        return p * 1e4 + code * 1e2 + e * 0.5
    if f == "image":
        k = np.arange(96).reshape(8, 12)
        img = ((p[:, None, None] * 31 + e[:, None, None] * 7 + k[None] * 3) % 251).astype(np.uint8)
        img[:, 0, 0] = p
        img[:, 0, 1] = code
        img[:, 0, 2] = e
        return img
    if f == "mask":
        k = np.arange(96).reshape(8, 12)
        m = ((k[None] + e[:, None, None]) % 3 == 0)
        bits = np.arange(12)
        m[:, 0, :] = ((e[:, None] >> bits[None]) & 1).astype(bool)
        m[:, 1, :] = ((p[:, None] >> bits[None]) & 1).astype(bool)
        return m
    if f == "contour":
        out = []
        for pi, ei in zip(p.tolist(), e.tolist()):
            pts = [[pi, ei]] + [[code + j, (ei * 3 + j) % 50] for j in range(2 + ei % 4)]
            out.append(np.array(pts, dtype=np.int32))
        return out
    if f == "trace":
        j = np.arange(10)
        out = {}
        for t, nm in enumerate(TRACES):
            a = ((e[:, None] * 3 + j[None]) % 1000 + t * 1000).astype(np.int16)
            a[:, 0] = p
            a[:, 1] = e
            a[:, 2] = t
            out[nm] = a
        return out
    raise KeyError(f)


def equal(f, got, exp):
    try:
        if f == "contour":
            return len(got) == len(exp) and all(np.asarray(a).shape == b.shape and np.array_equal(np.asarray(a), b) for a, b in zip(got, exp))
        if f == "trace":
            return sorted(got) == sorted(exp) and all(np.asarray(got[k]).shape == exp[k].shape and np.array_equal(np.asarray(got[k]), exp[k]) for k in exp)
        got = np.asarray(got)
        return got.shape == exp.shape and bool(np.array_equal(got, exp))
    except Exception:
        return False


def decode(f, got):
    """best-effort (provider, event) identities of delivered data, for the violation text"""
    try:
        if f == "fl1_max":
            g = np.asarray(got).astype(np.int64).ravel()
            return [(int(x // 10000), int(x % 100)) for x in g[:6]]
        if f in SCAL:
            g = np.asarray(got, dtype=float).ravel()
            return [(int(x // 1e4), float((x % 100) * 2)) for x in g[:6]]
        if f == "image":
            g = np.asarray(got).reshape(-1, 8, 12)
            return [(int(x[0, 0]), int(x[0, 2])) for x in g[:6]]
        if f == "mask":
            g = np.asarray(got).reshape(-1, 8, 12)
            w = 1 << np.arange(12)
            return [(int((x[1] * w).sum()), int((x[0] * w).sum())) for x in g[:6]]
        if f == "contour":
            return [(int(np.asarray(c)[0, 0]), int(np.asarray(c)[0, 1])) for c in list(got)[:6]]
        if f == "trace":
            g = np.asarray(got[TRACES[0]]).reshape(-1, 10)
            return [(int(x[0]), int(x[1])) for x in g[:6]]
    except Exception:
        return "?"
    return "?"


def meta_for(rid, fid, trace, noid=False):
    m = {"experiment": {"date": "2020-03-%02d" % (1 + fid % 27), "time": "10:%02d:%02d" % (fid % 60, (fid * 7) % 60),
                        "run index": 1 + fid, "sample": "s%d" % fid, "run identifier": rid},
         "setup": {"software version": "ShapeIn 2.2.2.4", "identifier": "ZMDD-AcC-%06d-000000" % fid, "channel width": 20.0,
                   "flow rate": 0.04, "chip region": "channel", "medium": "CellCarrier"},
         "imaging": {"frame rate": 2000.0, "pixel size": 0.34, "flash device": "LED", "flash duration": 2.0,
                     "roi position x": 1, "roi position y": 1, "roi size x": 12, "roi size y": 8}}
    if trace:
        m["fluorescence"] = {"bit depth": 16, "channel count": 1, "channels installed": 1, "laser count": 1, "lasers installed": 1,
                             "sample rate": 312500.0, "samples per event": 10, "signal max": 1.0, "signal min": -1.0, "trace median": 0,
                             "channel 1 name": "525/50", "laser 1 lambda": 488.0, "laser 1 power": 8.0}
    if noid:
        del m["experiment"]["run identifier"]
        del m["experiment"]["time"]
    return m


class MFile:
    def __init__(self, fid, path, kind, rid, n):
        self.fid, self.path, self.kind, self.rid, self.n = fid, path, kind, rid, n
        self.stored = {}      # feat -> list of candidate identity arrays (n x 2)
        self.basins = []      # dicts: target, locs, map, feats, internal
        self.depth = 0
        self.exists = True
        self.tainted = False
        self.noid = False
        self.facts = {}       # coarse facts for violation signatures
        self.fs = "none"      # last file-system event that concerned this file

    @property
    def name(self):
        return self.path.name


# -----------------------------------------------------------------------------------
# the world
# -----------------------------------------------------------------------------------

class World:
    def __init__(self, trace, ctx):
        self.t, self.ctx = trace, ctx
        self.root = pathlib.Path(ctx.scratch)
        self.dirs = [self.root / f"d{i}" for i in range(NDIRS)]
        for d in self.dirs:
            d.mkdir()
        self.files = []
        self.fcount = 0
        self.pcount = 0
        self.reported = set()
        from dst import faultfs
        self.rseam = faultfs.ReadFaultSeam().install()
        self.scalar_chunk = max(10, int(trace["knobs"]["chunk_bytes"] // 8))

    # ------------------------------------------------------------------ helpers
    def new_pid(self):
        self.pcount += 1
        return self.pcount

    def new_file(self, d, tag, kind, rid, n):
        self.fcount += 1
        p = self.dirs[d % NDIRS] / f"f{self.fcount:02d}{tag}.rtdc"
        F = MFile(self.fcount, p, kind, rid, n)
        return F

    def usable(self):
        return [i for i, F in enumerate(self.files) if F.exists and not F.tainted]

    def pick(self, i, maxdepth=None):
        if not self.files:
            return None
        F = self.files[i % len(self.files)]
        if not F.exists or F.tainted:
            return None
        if maxdepth is not None and F.depth > maxdepth:
            return None
        return F

    def report(self, oracle, detail, sig):
        """non-fatal violation, once per (oracle, signature) and run"""
        key = (oracle, seeds.short_hash(sig))
        if key in self.reported:
            return
        self.reported.add(key)
        self.ctx.violation(oracle, detail, sig=sig, fatal=False)

    def guarded(self, oracle, sig, fn, allow_keyerror=False, quiet=False):
        """call into dclab; returns (status, value): ok / keyerror / exc (reported unless quiet)"""
        try:
            with warnings.catch_warnings():
                warnings.simplefilter("ignore")
                return "ok", fn()
        except (StopRun, KeyboardInterrupt, SystemExit):
            raise
        except BaseException as e:
            if allow_keyerror and (isinstance(e, KeyError) or type(e).__name__ == "BasinNotAvailableError"):
                return "keyerror", e
            if quiet:
                return "exc", e
            where = "?"
            for fs in reversed(traceback.extract_tb(e.__traceback__)):
                if "/dclab/" in fs.filename:
                    where = fs.filename.split("/dclab/", 1)[1] + ":" + fs.name
                    break
            sig = dict(sig)
            sig.update({"exc": type(e).__name__, "where": where})
            tb = "".join(traceback.format_exception(type(e), e, e.__traceback__))[-1200:]
            tb = tb.replace(str(self.root), "<scratch>")
            self.report(oracle, f"unexpected {type(e).__name__}: {str(e).replace(str(self.root), '<scratch>')[:300]}\n{tb}", sig)
            return "exc", e

    # ------------------------------------------------------------------ model
    def locatable(self, F, B):
        T = B["target"]
        if T is None or not T.exists:
            return False
        for loc in B["locs"]:
            p = pathlib.Path(loc)
            cand = p if p.is_absolute() else F.path.parent / p
            if cand == T.path:
                return True
        return False

    def id_ok(self, F, B):
        T = B["target"]
        if F.rid is None:
            return True
        if T.rid is None:
            return False
        if B["map"] is None:
            return F.rid == T.rid
        return F.rid.startswith(T.rid)

    def targets(self, F, B, must):
        """files that may legitimately serve basin B of F: the intended target if a stored location points
        to it; for a referrer without any measurement identifier (nothing to verify against, documented
        as 'no certainty') also whatever measurement lies at a stored location"""
        out = []
        if self.locatable(F, B) and (not must or self.id_ok(F, B)):
            out.append(B["target"])
        if F.rid is None and not must:
            for loc in B["locs"]:
                p = pathlib.Path(loc)
                cand = p if p.is_absolute() else F.path.parent / p
                for X in self.files:
                    if X.exists and X.path == cand and X not in out:
                        out.append(X)
        return out

    def cands(self, F, f, must, use_stored=True):
        """candidate identity arrays for feature f of file F.  must=True: only
        through basins that dclab is obliged to resolve."""
        if not F.exists:
            return []
        if use_stored and f in F.stored:
            return list(F.stored[f])
        out = []
        for B in F.basins:
            if B["feats"] is not None and f not in B["feats"]:
                continue
            if B["internal"] is not None:
                if f in B["internal"]:
                    out.append(B["internal"][f][B["map"]])
                continue
            for T in self.targets(F, B, must):
                for c in self.cands(T, f, must):
                    if B["map"] is not None:
                        if len(c) <= int(B["map"].max()):
                            continue
                        c = c[B["map"]]
                    elif len(c) != F.n:
                        continue
                    out.append(c)
        uniq = {}
        for c in out:
            uniq.setdefault(c.tobytes(), c)
        return list(uniq.values())

    def offered(self, F):
        """features dclab lists for F when it is used as a basin without feature restriction"""
        s = set(F.stored)
        for B in F.basins:
            if B["internal"] is not None:
                s |= set(B["feats"] or [])
            elif self.locatable(F, B) and self.id_ok(F, B):
                s |= set(B["feats"]) if B["feats"] is not None else self.offered(B["target"])
        return s

    def mapped_route(self, F, f):
        """does feature f reach F through at least one mapped (or internal) basin?"""
        if not F.exists or f in F.stored:
            return False
        for B in F.basins:
            if B["feats"] is not None and f not in B["feats"]:
                continue
            if B["internal"] is not None:
                if f in B["internal"]:
                    return True
                continue
            if self.locatable(F, B) and self.cands(B["target"], f, must=False):
                if B["map"] is not None or self.mapped_route(B["target"], f):
                    return True
        return False

    def mapped_levels(self, F, f):
        """largest number of mapped basins in a row through which f can reach F"""
        if not F.exists or f in F.stored:
            return 0
        best = 0
        for B in F.basins:
            if B["internal"] is not None or (B["feats"] is not None and f not in B["feats"]) or not self.locatable(F, B):
                continue
            best = max(best, (1 if B["map"] is not None else 0) + self.mapped_levels(B["target"], f))
        return best

    def has_noid(self, F):
        return F.noid or any(B["target"] is not None and self.has_noid(B["target"]) for B in F.basins)

    def referrers_of(self, T):
        return [F for F in self.files if any(B["target"] is T for B in F.basins)]

    def closure(self, F):
        """F and every existing file reachable through its basins"""
        seen, todo = [], [F]
        while todo:
            X = todo.pop()
            if X in seen or not X.exists:
                continue
            seen.append(X)
            for B in X.basins:
                if B["target"] is not None:
                    todo.append(B["target"])
        return seen

    # ------------------------------------------------------------------ generation
    def gen_op(self, r):
        us = self.usable()
        n_or = sum(1 for i in us if self.files[i].kind == "origin")
        if len(self.files) >= MAX_FILES:
            x = r.uniform(0.62, 1.0)
        elif not us or n_or == 0 or (n_or < 2 and r.random() < 0.25) or (len(us) < 4 and r.random() < 0.12):
            x = -1.0
        else:
            x = r.random()
        if x < 0:
            feats = r.sample(SCAL, r.randint(2, 4)) + r.sample(NONSC, min(len(NONSC), r.choice([1, 2, 3, 4, 4])))
            return {"k": "origin", "n": r.choice([5, 7, 9, 12, 17, 23, 31, 44, 60]), "feats": feats, "dir": r.randrange(NDIRS),
                    # (origins without any measurement identifier are not generated: their exports carry no
                    #  identifier either, and a referrer without identifier gives 'no certainty' by dclab's own
                    #  documentation - nothing the property promises can be judged for them)
                    "noid": False}
        i = r.choice(us)
        if x < 0.55 and r.random() < 0.35:
            # favour long chains: derive from the deepest file that may still be a source
            deep = [j for j in us if self.files[j].depth <= 3]
            if deep:
                i = max(deep, key=lambda j: (self.files[j].depth, j))
        if x < 0.30:
            return {"k": "export", "src": i, "depth": r.choice([0, 0, 0, 1, 1, 2]), "mseed": r.randrange(1 << 30), "again": r.random() < 0.5,
                    "filtered": r.random() < 0.8, "feats": r.choice(["none", "none", "some", "some", "all"]),
                    "box": r.random() < 0.25, "dir": r.choice([-1, -1, -1, 0, 1, 2]), "p": r.choice([0.3, 0.6, 0.9])}
        if x < 0.55:
            two = r.choice(["none", "none", "none", "same_target", "same_target_shared_map", "other_target", "alternating"])
            return {"k": "store", "tgt": i, "tgt2": r.choice(us), "mapkind": r.choice(["same", "subset", "subset", "superset", "perm", "long", "ends_fixed", "ends_fixed"]),
                    "mseed": r.randrange(1 << 30), "own": r.choice([0, 1, 1, 2, 3]), "restrict": r.random() < 0.4,
                    "explicit": r.choice([None, None, None, 0, 3, 9]), "locs": r.choice(["abs", "rel", "both", "both"]),
                    "dir": r.choice([-1, -1, -1, 0, 1, 2]), "internal": r.random() < 0.25, "two": two}
        if x < 0.62:
            return {"k": "tool", "src": i, "tool": r.choice(["compress", "repack"])}
        if x < 0.82:
            op = {"k": "read", "src": i, "feat": r.choice(ALLF), "acc": r.choice(ACCESS), "aseed": r.randrange(1 << 30)}
            if r.random() < 0.5:
                # one read of a file fails (flaky disk / network file system, interrupt) inside a first attempt of this access;
                # the caller repeats the access on the same dataset object
                op["fail_first"] = {"at": r.choice([0, 0, 1, 1, 2, 3, 4, 6, 9, 14, 20, 30]), "kind": r.choice(["err", "err", "intr"]),
                                    "only": r.choice([None, "basinmap", "/events/", "/events/", "ds.", "ds."]),
                                    "from_end": r.choice([None, 0, 0, 0, 1, 1, 2, 3, 5])}
            return op
        return {"k": "fs", "src": i, "what": r.choice(["move_together", "move_together", "move_ref", "delete", "rename", "replace"]),
                "dir": r.randrange(NDIRS), "on_target": r.random() < 0.75}

    # ------------------------------------------------------------------ execution
    def execute(self, op):
        getattr(self, "do_" + op["k"])(op)

    # ---- origin
    def do_origin(self, op):
        from dclab.rtdc_dataset.writer import RTDCWriter
        ctx = self.ctx
        if len(self.files) >= MAX_FILES + 4:
            return
        n = max(1, min(int(op["n"]), 60))
        feats = [f for f in ALLF if f in op["feats"]] or ["pos_x"]
        noid = bool(op.get("noid"))
        F = self.new_file(op["dir"], "o", "origin", None, n)
        F.rid = None if noid else f"rid-{F.fid:02d}"
        F.noid = noid
        pid = self.new_pid()
        with RTDCWriter(F.path, mode="reset") as hw:
            hw.store_metadata(meta_for(F.rid, F.fid, "trace" in feats, noid=noid))
            for f in feats:
                hw.store_feature(f, values(f, ident_range(pid, n)))
                F.stored[f] = [ident_range(pid, n)]
        F.facts = {"why": "origin"}
        self.files.append(F)
        ctx.log("w", f"origin {F.name} n={n} feats={feats} pid={pid} noid={noid}")

    # ---- export
    def do_export(self, op):
        import dclab
        ctx = self.ctx
        S = self.pick(op["src"], maxdepth=3)
        if S is None or len(self.files) >= MAX_FILES + 4:
            return
        rs = seeds.np_rng(op["mseed"], "masks")
        pr = seeds.rng(op["mseed"], "export")
        depth = int(op["depth"])
        filtered = bool(op["filtered"])
        if op.get("again") and depth == 1 and op["mseed"] % 2:
            filtered = False    # (the re-export scenario needs a child without filters of its own)
        avail = [f for f in ALLF if self.cands(S, f, must=True)]
        if op["feats"] == "none":
            feats = []
        elif op["feats"] == "all":
            feats = list(avail)
        else:
            feats = [f for f in avail if pr.random() < 0.45]
        d = S.path.parent if op["dir"] < 0 else self.dirs[op["dir"] % NDIRS]
        P = self.new_file(0, "e", "export", None, 0)
        P.path = d / P.path.name
        P2 = None
        if op.get("again") and depth == 1 and not filtered:
            P2 = self.new_file(0, "e", "export", None, 0)
            P2.path = d / P2.path.name
        src_basins = "none" if not S.basins else ("mapped" if any(B["map"] is not None for B in S.basins) else "same")
        facts = {"why": "export_child" if depth else "export", "filtered": filtered, "src_basins": src_basins}
        if self.has_noid(S):
            facts["noid"] = True
        state = {}

        def produce():
            ds = dclab.new_dataset(S.path)
            chain = [ds]
            try:
                idx = np.arange(S.n)
                for _ in range(depth):
                    cur = chain[-1]
                    m = rs.random(len(idx)) < op["p"]
                    if not m.any():
                        m[int(rs.integers(0, len(idx)))] = True
                    try:
                        cur.filter.manual[:] = m
                        cur.apply_filter()
                        child = dclab.new_dataset(cur)
                    except Exception as e:
                        # building the hierarchy is C04's business; only the export itself is judged here
                        state["child_failed"] = type(e).__name__
                        return
                    chain.append(child)
                    applied = np.array(cur.filter.all, dtype=bool)
                    idx = idx[applied]
                cur = chain[-1]
                if filtered:
                    boxf = None
                    if op["box"]:
                        cs = [f for f in SCAL if f != "fl1_max" and len(self.cands(S, f, must=True)) == 1 and len(self.cands(S, f, must=False)) == 1]
                        if cs:
                            boxf = cs[int(rs.integers(0, len(cs)))]
                    if boxf is not None and len(idx) >= 2:
                        v = np.sort(values(boxf, self.cands(S, boxf, must=True)[0][idx]))
                        a, b = sorted(int(x) for x in rs.integers(0, len(v), size=2))
                        if v[a] == v[b]:
                            a, b = 0, len(v) - 1
                        if v[a] != v[b]:
                            cur.config["filtering"][boxf + " min"] = float(v[a])
                            cur.config["filtering"][boxf + " max"] = float(v[b])
                            ctx.probe("box_filter")
                            state["box"] = boxf
                    m = rs.random(len(idx)) < op["p"]
                    if state.get("box"):
                        m[:] = True
                        m[rs.random(len(idx)) < 0.15] = False
                    if not m.any():
                        m[int(rs.integers(0, len(idx)))] = True
                    cur.filter.manual[:] = m
                    cur.apply_filter()
                    applied = np.array(cur.filter.all, dtype=bool)
                    if not applied.any():
                        state["empty"] = True
                        return
                    sel = idx[applied]
                else:
                    cur.apply_filter()
                    sel = idx
                state["sel"] = sel
                state["masks"] = seeds.short_hash(sel)
                cur.export.hdf5(P.path, features=feats, filtered=filtered, basins=True)
                if op.get("again") and depth == 1 and not filtered and 0 < len(sel) < S.n:
                    # the parent selects other events, equally many; the same child object is refreshed and exported again
                    m2 = np.zeros(S.n, dtype=bool)
                    m2[sel] = True
                    on, off = np.flatnonzero(m2), np.flatnonzero(~m2)
                    m2[on[int(rs.integers(0, len(on)))]] = False
                    m2[off[int(rs.integers(0, len(off)))]] = True
                    ds.filter.manual[:] = m2
                    cur.rejuvenate()
                    state["sel2"] = np.flatnonzero(m2)
                    cur.export.hdf5(P2.path, features=feats, filtered=filtered, basins=True)
                # the hierarchy children are closed (as at the end of a with-block), the source stays open and in use:
                # neither exporting nor closing a child may change what the source delivers
                for c in chain[:0:-1]:
                    try:
                        c.close()
                    except Exception:
                        pass
                if depth:
                    ctx.probe("child_closed_source_still_used")
                reuse = {}
                for f in SCAL:
                    try:
                        reuse[f] = np.array(np.asarray(ds[f][:]))
                    except KeyError:
                        reuse[f] = None
                state["reuse"] = reuse
            finally:
                for c in chain[::-1]:
                    try:
                        c.close()
                    except Exception:
                        pass

        ctx.state_ops += 1
        status, _ = self.guarded("C07.export_child.exception" if depth else "C07.export.exception", facts, produce)
        if state.get("empty"):
            ctx.log("w", f"export of {S.name} skipped (empty selection)")
            return
        if state.get("child_failed"):
            ctx.count("skipped_producer_child")
            ctx.log("w", f"child of {S.name} failed: {state['child_failed']}")
            return
        sel = state.get("sel")
        ctx.log("w", f"export {S.name}->{P.name} depth={depth} filtered={filtered} feats={feats} box={state.get('box')}", state.get("masks"))
        if status != "ok":
            for Q in (P, P2):
                if Q is not None and Q.path.exists():
                    Q.path.unlink()
            ctx.log("w", "export failed")
            return
        # the source object after the export (same open dataset): every feature it must deliver is still delivered
        for f, got in sorted((state.get("reuse") or {}).items()):
            must = self.cands(S, f, must=True)
            may = self.cands(S, f, must=False)
            ctx.checked()
            if got is None:
                if must:
                    self.report("C07.source_after_export", f"{S.name}: after exporting from it, the still open dataset no longer offers "
                                                           f"feature {f}", dict(facts, feat="scalar", what="lost"))
            elif may and not any(equal("pos_x", got, values(f, c)) for c in may):
                self.report("C07.source_after_export", f"{S.name}: after exporting from it, feature {f} of the still open dataset differs "
                                                       f"from the origin data at the mapped events", dict(facts, feat="scalar", what="changed"))
            ctx.probe("source_reused_after_export")
        mapped = filtered or depth > 0
        products = [(P, sel)]
        if P2 is not None and state.get("sel2") is not None and P2.path.exists():
            products.append((P2, state["sel2"]))
            ctx.probe("child_reexported_after_equal_count_reselection")
        for P, sel in products:
            self.register_export(P, S, sel, feats, facts, mapped, filtered, depth, src_basins)

    def register_export(self, P, S, sel, feats, facts, mapped, filtered, depth, src_basins):
        ctx = self.ctx
        P.n = len(sel)
        P.rid = self.read_rid(P.path)
        P.depth = S.depth + 1
        P.noid = False
        for f in feats:
            P.stored[f] = [c[sel] for c in self.cands(S, f, must=False)]
        if "contour" in feats and self.contour_recomputable(S):
            P.contour_unmodelled = True
            ctx.count("export_of_recomputed_contour")
        for B in S.basins:
            if B["internal"] is not None:
                continue
            if not (self.locatable(S, B) and self.id_ok(S, B)):
                continue
            T = B["target"]
            if mapped:
                bm = (B["map"] if B["map"] is not None else np.arange(S.n))[sel]
            else:
                bm = B["map"]
            fz = sorted(B["feats"]) if B["feats"] is not None else sorted(self.offered(T))
            P.basins.append({"target": T, "locs": [str(T.path)], "map": bm, "feats": fz, "internal": None})
        P.basins.append({"target": S, "locs": [str(S.path), S.path.name], "map": (sel.copy() if mapped else None), "feats": None, "internal": None})
        P.facts = facts
        self.files.append(P)
        if depth:
            ctx.probe("child_export")
            if S.basins:
                ctx.probe("child_export_of_basin_file")
        if not feats:
            ctx.probe("basin_only_export")
        else:
            ctx.probe("export_with_stored")
        if not filtered:
            ctx.probe("unfiltered_export")
        if P.depth == 3:
            ctx.probe("chain_depth_3")
        if P.depth >= 4:
            ctx.probe("chain_depth_4")
        ctx.state("export", P.depth, "mapped" if mapped else "same", depth, src_basins)
        self.check_file(P)

    def read_rid(self, path):
        import h5py
        with h5py.File(path, "r") as h:
            v = h.attrs.get("experiment:run identifier")
        if isinstance(v, bytes):
            v = v.decode("utf-8")
        return None if v is None else str(v)

    # ---- explicit store_basin
    def make_map(self, kind, n_t, rs):
        if kind == "same":
            return None
        if kind == "subset":
            k = int(rs.integers(1, n_t + 1))
            return np.sort(rs.choice(n_t, size=k, replace=False)).astype(np.uint64)
        if kind == "superset":
            k = int(rs.integers(n_t + 1, max(n_t + 2, min(MAX_EVENTS, 2 * n_t + 3) + 1)))
            m = rs.integers(0, n_t, size=k)
            if rs.random() < 0.5:
                m = np.sort(m)
            return m.astype(np.uint64)
        if kind == "perm":
            return rs.permutation(n_t).astype(np.uint64)
        if kind == "ends_fixed":
            # as many entries as the span from the smallest (first) to the largest (last) index, but not
            # increasing: a shuffled middle, or repeats balanced by gaps - looks like a contiguous block
            if n_t < 4:
                return rs.permutation(n_t).astype(np.uint64)
            lo = int(rs.integers(0, max(1, n_t // 3)))
            hi = int(rs.integers(lo + 3, n_t))
            mid = np.arange(lo + 1, hi)
            if rs.random() < 0.5:
                mid = rs.permutation(mid)
                if np.all(np.diff(mid) > 0):
                    mid = mid[::-1]
            else:
                mid = np.sort(rs.choice(np.arange(lo, hi + 1), size=len(mid), replace=True))
            return np.concatenate([[lo], mid, [hi]]).astype(np.uint64)
        # long: longer than one chunk of the map feature whenever the chunk knob allows
        k = int(min(MAX_EVENTS, max(self.scalar_chunk + 1 + int(rs.integers(0, 12)), n_t // 2 + 1)))
        return rs.integers(0, n_t, size=k).astype(np.uint64)

    def do_store(self, op):
        from dclab.rtdc_dataset.writer import RTDCWriter
        ctx = self.ctx
        T = self.pick(op["tgt"], maxdepth=3)
        if T is None or len(self.files) >= MAX_FILES + 4:
            return
        rs = seeds.np_rng(op["mseed"], "store")
        pr = seeds.rng(op["mseed"], "store")
        bmap = self.make_map(op["mapkind"], T.n, rs)
        n = T.n if bmap is None else len(bmap)
        d = T.path.parent if op["dir"] < 0 else self.dirs[op["dir"] % NDIRS]
        R = self.new_file(0, "r", "referrer", None, n)
        R.path = d / R.path.name
        R.rid = T.rid if bmap is None else f"{T.rid}-s{R.fid}"
        if T.rid is None:
            R.rid = f"rid-{R.fid}-x"
        t_off = sorted(self.offered(T) & set(ALLF), key=ALLF.index)
        t_av = [f for f in ALLF if self.cands(T, f, must=True)]

        def locs_for(X):
            return {"abs": [str(X.path)], "rel": [X.path.name], "both": [str(X.path), X.path.name]}[op["locs"]]

        calls = []   # (kwargs for store_basin, model basin)
        feats1 = None
        if op["restrict"] and t_off:
            feats1 = [f for f in t_off if pr.random() < 0.5] or [t_off[0]]
        explicit = op.get("explicit")
        bm_arg = bmap
        calls.append((dict(basin_name="b1", basin_type="file", basin_format="hdf5", basin_locs=locs_for(T), basin_descr="first",
                           basin_feats=feats1, basin_map=bm_arg),
                      {"target": T, "locs": locs_for(T), "map": bmap, "feats": feats1, "internal": None}))
        two = op.get("two", "none")
        if two in ("same_target", "same_target_shared_map") and bmap is not None and t_off:
            rest = [f for f in t_off if feats1 is None or f not in feats1] or t_off
            feats2 = [f for f in rest if pr.random() < 0.6] or [rest[0]]
            if two == "same_target_shared_map":
                map2 = bmap.copy()
            else:
                map2 = rs.integers(0, T.n, size=n).astype(np.uint64)
            calls.append((dict(basin_name="b2", basin_type="file", basin_format="hdf5", basin_locs=locs_for(T), basin_descr="second",
                               basin_feats=feats2, basin_map=map2),
                          {"target": T, "locs": locs_for(T), "map": map2, "feats": feats2, "internal": None}))
        elif two == "alternating" and bmap is not None and len(t_off) >= 4 and not op["restrict"]:
            # four basins on the same target stored by one writer, their maps alternate: A, B, A, B
            mapB = rs.integers(0, T.n, size=n).astype(np.uint64)
            groups = [t_off[i::4] for i in range(4)]
            calls[0][0]["basin_feats"] = groups[0]
            calls[0][1]["feats"] = groups[0]
            for gi, (nm, mp) in enumerate([("b2", mapB), ("b3", bmap.copy()), ("b4", mapB.copy())], start=1):
                calls.append((dict(basin_name=nm, basin_type="file", basin_format="hdf5", basin_locs=locs_for(T), basin_descr=nm,
                                   basin_feats=groups[gi], basin_map=mp),
                              {"target": T, "locs": locs_for(T), "map": mp, "feats": groups[gi], "internal": None}))
            ctx.probe("four_basins_alternating_maps")
        elif two == "other_target":
            T2 = self.pick(op["tgt2"], maxdepth=3)
            if T2 is not None and T2 is not T:
                o2 = sorted(self.offered(T2) & set(ALLF), key=ALLF.index)
                feats2 = [f for f in o2 if pr.random() < 0.6] or o2[:1]
                map2 = rs.integers(0, T2.n, size=n).astype(np.uint64)
                if feats2:
                    calls.append((dict(basin_name="b2", basin_type="file", basin_format="hdf5", basin_locs=locs_for(T2), basin_descr="other",
                                       basin_feats=feats2, basin_map=map2),
                                  {"target": T2, "locs": locs_for(T2), "map": map2, "feats": feats2, "internal": None}))
        if op.get("internal"):
            m_int = int(rs.integers(1, 20))
            ipid = self.new_pid()
            ifeats = [f for f in SCAL + ["image"] if pr.random() < 0.4] or ["temp"]
            imap = rs.integers(0, m_int, size=n).astype(np.uint64)
            idata = {f: values(f, ident_range(ipid, m_int)) for f in ifeats}
            calls.append((dict(basin_name="bi", basin_type="internal", basin_format="h5dataset", basin_locs=["basin_events"],
                               basin_descr="internal", basin_feats=list(ifeats), basin_map=imap, internal_data=idata),
                          {"target": None, "locs": ["basin_events"], "map": imap, "feats": list(ifeats),
                           "internal": {f: ident_range(ipid, m_int) for f in ifeats}}))
        if bmap is not None and explicit is not None:
            # (automatically named maps of the other basins occupy basinmap0..2)
            k_exp = int(explicit) % 10 if len(calls) == 1 else 3 + int(explicit) % 7
            calls[0][0]["basin_map"] = (f"basinmap{k_exp}", bmap)
        # own features with deliberately different values
        n_own = int(op["own"])
        if bmap is None and len(calls) == 1:
            n_own = max(1, n_own)
        pool = list(t_av) if pr.random() < 0.8 and t_av else list(ALLF)
        pr.shuffle(pool)
        own = sorted(pool[:n_own], key=ALLF.index)
        opid = self.new_pid() if own else None
        if pr.random() < 0.5 and two != "alternating":
            pr.shuffle(calls)
        facts = {"why": "store"}
        if self.has_noid(T):
            facts["noid"] = True

        def produce():
            with RTDCWriter(R.path, mode="reset") as hw:
                hw.store_metadata(meta_for(R.rid, R.fid, "trace" in own))
                for f in own:
                    hw.store_feature(f, values(f, ident_range(opid, n)))
                for kw, _ in calls:
                    hw.store_basin(verify=False, **kw)

        ctx.state_ops += 1
        status, _ = self.guarded("C07.store_basin.exception", facts, produce)
        ctx.log("w", f"store {R.name}->{T.name} map={op['mapkind']} n={n} own={own} calls={[(kw['basin_name'], kw['basin_feats']) for kw, _ in calls]} "
                     f"locs={op['locs']} explicit={explicit}", seeds.short_hash([mb["map"] for _, mb in calls]))
        if status != "ok":
            if R.path.exists():
                R.path.unlink()
            return
        for f in own:
            R.stored[f] = [ident_range(opid, n)]
        R.basins = [mb for _, mb in calls]
        R.depth = 1 + max([mb["target"].depth for mb in R.basins if mb["target"] is not None] + [0])
        R.facts = facts
        self.files.append(R)
        if op["mapkind"] == "superset":
            ctx.probe("map_superset")
        if op["mapkind"] == "perm":
            ctx.probe("map_permutation")
        if n > self.scalar_chunk and bmap is not None:
            ctx.probe("map_crosses_chunk")
        if sum(1 for mb in R.basins if mb["internal"] is None) >= 2:
            ctx.probe("two_basins")
            if two == "same_target_shared_map":
                ctx.probe("two_basins_shared_map")
        if any(mb["internal"] is not None for mb in R.basins):
            ctx.probe("internal_basin")
        if bmap is not None and explicit is not None:
            ctx.probe("explicit_mapname")
        if feats1 is not None:
            ctx.probe("basin_feats_restricted")
        ctx.state("store", R.depth, op["mapkind"], len(calls), op["locs"])
        self.check_file(R)

    # ---- compress / repack
    def do_tool(self, op):
        from dclab import cli
        ctx = self.ctx
        S = self.pick(op["src"])
        if S is None or len(self.files) >= MAX_FILES + 4:
            return
        C = self.new_file(0, op["tool"][:2], "copy", S.rid, S.n)
        C.path = S.path.parent / C.path.name
        try:
            with warnings.catch_warnings():
                warnings.simplefilter("ignore")
                getattr(cli, op["tool"])(path_in=S.path, path_out=C.path)
        except Exception as e:
            # the tools themselves are judged by C08; here only what can be read through the copy
            ctx.count("skipped_producer_" + op["tool"])
            ctx.log("w", f"{op['tool']} {S.name} failed: {type(e).__name__}")
            if C.path.exists():
                C.path.unlink()
            return
        C.stored = {f: list(v) for f, v in S.stored.items()}
        C.basins = [dict(B) for B in S.basins]
        C.depth = S.depth
        C.noid = S.noid
        C.facts = {"why": "tool"}
        self.files.append(C)
        ctx.state_ops += 1
        ctx.probe("tool_copy")
        ctx.state("tool", op["tool"], S.kind, S.depth)
        ctx.log("w", f"{op['tool']} {S.name}->{C.name}")
        self.check_file(C)

    # ---- file system actor
    def do_fs(self, op):
        ctx = self.ctx
        X = self.pick(op["src"])
        if X is None:
            return
        what = op["what"]
        dnew = self.dirs[op["dir"] % NDIRS]
        affected = []
        if what in ("delete", "rename", "replace") and op.get("on_target"):
            # prefer a file that something refers to
            ts = [B["target"] for B in X.basins if B["target"] is not None and B["target"].exists]
            if ts:
                X = ts[op["dir"] % len(ts)]
        if what == "move_together":
            group = self.closure(X)
            if dnew == X.path.parent:
                dnew = self.dirs[(op["dir"] + 1) % NDIRS]
            for Y in group:
                if Y.path.parent != dnew:
                    newp = dnew / Y.path.name
                    shutil.move(str(Y.path), str(newp))
                    Y.path = newp
            for Y in self.files:
                if Y.exists and (Y in group or any(B["target"] in group for B in Y.basins)):
                    Y.fs = "moved_together" if Y in group else "target_moved"
                    affected.append(Y)
            if len(group) > 1:
                ctx.probe("moved_together")
            ctx.log("fs", f"move_together {[Y.name for Y in group]} -> {dnew.name}")
        elif what == "move_ref":
            if dnew == X.path.parent:
                dnew = self.dirs[(op["dir"] + 1) % NDIRS]
            newp = dnew / X.path.name
            shutil.move(str(X.path), str(newp))
            X.path = newp
            X.fs = "moved_ref"
            affected.append(X)
            for Y in self.referrers_of(X):
                if Y.exists:
                    Y.fs = "target_moved"
                    affected.append(Y)
            if X.basins:
                ctx.probe("moved_ref_only")
            ctx.log("fs", f"move_ref {X.name} -> {dnew.name}")
        elif what == "delete":
            if sum(1 for F in self.files if F.exists) <= 1:
                return
            X.path.unlink()
            X.exists = False
            for Y in self.referrers_of(X):
                if Y.exists:
                    Y.fs = "target_deleted"
                    affected.append(Y)
            if affected:
                ctx.probe("origin_deleted")
            ctx.log("fs", f"delete {X.name}")
        elif what == "rename":
            self.fcount += 1
            newp = X.path.parent / f"f{self.fcount:02d}n.rtdc"
            old = X.name
            X.path.rename(newp)
            X.path = newp
            X.fs = "renamed"
            affected.append(X)
            for Y in self.referrers_of(X):
                if Y.exists:
                    Y.fs = "target_renamed"
                    affected.append(Y)
            if len(affected) > 1:
                ctx.probe("origin_renamed")
            ctx.log("fs", f"rename {old} -> {X.name}")
        elif what == "replace":
            from dclab.rtdc_dataset.writer import RTDCWriter
            feats = [f for f in ALLF if f in X.stored] or ["pos_x", "temp"]
            X.path.unlink()
            X.exists = False
            self.fcount += 1
            N = MFile(self.fcount, X.path, "origin", f"rep-{self.fcount}", X.n)
            pid = self.new_pid()
            with RTDCWriter(N.path, mode="reset") as hw:
                hw.store_metadata(meta_for(N.rid, N.fid, "trace" in feats))
                for f in feats:
                    hw.store_feature(f, values(f, ident_range(pid, N.n)))
                    N.stored[f] = [ident_range(pid, N.n)]
            N.facts = {"why": "origin"}
            self.files.append(N)
            for Y in self.referrers_of(X):
                if Y.exists:
                    Y.fs = "target_replaced"
                    affected.append(Y)
            if affected:
                ctx.probe("origin_replaced")
            ctx.log("fs", f"replace {X.name} by measurement {N.rid} pid={pid}")
        else:
            return
        ctx.state_ops += 1
        # everything that (transitively) refers to an affected file is read again
        todo, seen = list(affected), []
        while todo:
            Y = todo.pop(0)
            if Y in seen:
                continue
            seen.append(Y)
            for Z in self.referrers_of(Y):
                if Z.exists and Z not in seen:
                    if Z.fs == "none":
                        Z.fs = "indirect"
                    todo.append(Z)
        seen = [Y for Y in seen if Y.basins and not Y.tainted]
        for Y in sorted(seen, key=lambda y: y.fid)[:3]:
            self.check_file(Y, why="fs")

    # ------------------------------------------------------------------ oracles
    def open_ds(self, F, sig):
        import dclab
        status, ds = self.guarded("C07.open", sig, lambda: dclab.new_dataset(F.path))
        if status != "ok":
            F.tainted = True
            return None
        return ds

    def read_full(self, ds, f, n, obj=None):
        if obj is None:
            obj = ds[f]
        if f == "contour":
            ln = len(obj)
            return ln, [np.asarray(obj[i]) for i in range(n)]
        if f == "trace":
            out = {nm: np.asarray(obj[nm][:]) for nm in TRACES}
            return len(obj[TRACES[0]]), out
        return len(obj), np.asarray(obj[:])

    def sig_for(self, F, why, f=None, **extra):
        """coarse, stable facts that identify a family of failures"""
        s = {"why": why}
        fa = F.facts
        if str(fa.get("why", "")).startswith("export"):
            s["src_basins"] = fa.get("src_basins")
            s["filtered"] = fa.get("filtered")
        if f is not None:
            s["feat"] = fkind(f)
            s["stored"] = f in F.stored
        if why == "fs":
            s["fs"] = F.fs
        if self.has_noid(F):
            s["noid"] = True
        s.update(extra)
        return s

    def contour_recomputable(self, F):
        """dclab computes 'contour' from 'mask' where no basin delivers it (here or inside a basin's target):
        such a contour is legitimate data that the model does not describe"""
        if getattr(F, "contour_unmodelled", False):
            # exported from a source whose contour dclab computed from a mask: stored, legitimate, not described by the model
            return True
        if not F.exists or "contour" in F.stored:
            return False
        for B in F.basins:
            if B["internal"] is not None or (B["feats"] is not None and "contour" not in B["feats"]):
                continue
            if self.locatable(F, B) and self.contour_recomputable(B["target"]):
                return True
        if not self.cands(F, "contour", must=True) and bool(self.cands(F, "mask", must=False)):
            return True
        # a target somewhere below was deleted or replaced by another measurement: whichever member of the chain lost
        # its route to the stored contour computes it from a mask (legitimate data that the model does not describe)
        clo = self.closure(F)
        if any(X.fs in ("target_replaced", "target_deleted", "indirect") for X in clo) and any("mask" in X.stored or self.cands(X, "mask", must=False) for X in clo):
            return True
        return False

    def check_file(self, F, why=None):
        """read every feature of the universe completely and compare with the model"""
        ctx = self.ctx
        why = why or F.facts.get("why", "?")
        ds = self.open_ds(F, self.sig_for(F, why))
        if ds is None:
            ctx.log("o", f"check {F.name} open failed")
            return
        bad = False
        summary = []
        try:
            ctx.checked()
            st, ln = self.guarded("C07.len", self.sig_for(F, why, what="dataset"), lambda: len(ds))
            if st == "ok" and ln != F.n:
                self.report("C07.len", f"{F.name}: len(ds)={ln} but the file holds {F.n} events", self.sig_for(F, why, what="dataset"))
                bad = True
            elif st != "ok":
                bad = True
            for f in ALLF:
                may = self.cands(F, f, must=False)
                must = self.cands(F, f, must=True)
                mapped_route = self.mapped_route(F, f)
                sig = self.sig_for(F, why, f)
                if f == "contour" and self.contour_recomputable(F):
                    continue
                ctx.checked()
                rsig = {"feat": fkind(f), "acc": "full", "mapped": bool(mapped_route)}
                if self.has_noid(F):
                    rsig["noid"] = True
                st, res = self.guarded("C07.read.exception." + fkind(f), rsig, lambda f=f: self.read_full(ds, f, F.n), allow_keyerror=True)
                if st == "exc":
                    summary.append(f + ":exc")
                    continue
                if st == "keyerror":
                    summary.append(f + ":-")
                    if must:
                        self.report("C07.available", f"{F.name}: feature {f} is not available although a stored location of a basin "
                                                     f"points to its target (last file-system event: {F.fs})", dict(sig, fs=F.fs))
                        bad = True
                    elif may:
                        ctx.count("unavailable_tolerated")
                    elif F.fs != "none":
                        ctx.probe("unavailable_confirmed")
                    continue
                ln, got = res
                if not may:
                    self.report("C07.other_data", f"{F.name}: feature {f} should not be available (no basin target is reachable, last "
                                                  f"file-system event {F.fs}) but data were delivered: identities {decode(f, got)}",
                                dict(sig, fs=F.fs))
                    bad = True
                    continue
                if len(may) > 1:
                    ctx.probe("ambiguous_candidates")
                if F.fs == "moved_together" and f not in F.stored:
                    ctx.probe("available_after_move_together")
                if F.fs in ("moved_ref", "target_moved") and f not in F.stored:
                    ctx.probe("abs_location_still_resolves")
                if mapped_route and f in NONSC:
                    ctx.probe("nonscalar_through_mapped")
                # (which of several equally ranked basins dclab asks first depends on the hash of the basin
                # definition, which contains the scratch path: only unambiguous data enter the digest)
                summary.append(f + ":" + (seeds.short_hash(got)[:6] if len(may) == 1 else "amb"))
                if ln != F.n:
                    self.report("C07.len", f"{F.name}: len(ds['{f}'])={ln} but the file holds {F.n} events", dict(sig, what="feature"))
                    bad = True
                if any(equal(f, got, values(f, c)) for c in may):
                    if f in F.stored and self.cands(F, f, must=False, use_stored=False):
                        ctx.probe("precedence_checked")
                    continue
                bad = True
                other = self.cands(F, f, must=False, use_stored=False) if f in F.stored else []
                if other and any(equal(f, got, values(f, c)) for c in other):
                    self.report("C07.precedence", f"{F.name}: feature {f} is stored in the file itself but basin data were delivered "
                                                  f"(identities {decode(f, got)})", sig)
                else:
                    exp = may[0]
                    self.report("C07.value." + why,
                                f"{F.name} (n={F.n}, depth {F.depth}): feature {f} differs from the origin data at the mapped events: "
                                f"delivered identities (provider, event) {decode(f, got)}, expected {[tuple(int(v) for v in x) for x in exp[:6]]}"
                                f"; shape {np.shape(got) if f not in ('contour', 'trace') else '-'}", sig)
        finally:
            try:
                ds.close()
            except Exception:
                pass
        if not bad and F.basins:
            # (a fresh instance: a second read of a scalar through the same proxy object takes dclab's per-event route,
            # whose cost grows as n**depth through nested mapped basins)
            ds2 = self.open_ds(F, self.sig_for(F, why))
            if ds2 is not None:
                try:
                    bad = self.check_basins(F, ds2, why)
                finally:
                    try:
                        ds2.close()
                    except Exception:
                        pass
        if bad:
            F.tainted = True
        ctx.log("o", f"check {F.name} why={why} fs={F.fs} {'BAD' if bad else 'ok'}", " ".join(summary))

    def check_basins(self, F, ds, why):
        """every basin of the file, asked directly, must deliver the origin's data at the mapped events
        (also for features that the file stores itself and that therefore never reach the reader)"""
        ctx = self.ctx
        st, basins = self.guarded("C07.open", self.sig_for(F, why, what="basins"), lambda: list(ds.basins))
        if st != "ok":
            return True
        skip_contour = any(self.contour_recomputable(X) for X in self.closure(F))
        bad = False
        for bn in basins:
            st, feats = self.guarded("C07.open", self.sig_for(F, why, what="basin_features"), lambda bn=bn: list(bn.features or []))
            if st != "ok":
                return True
            for f in ALLF:
                if f not in feats or (f == "contour" and skip_contour):
                    continue
                exp = self.cands(F, f, must=False, use_stored=False)

                def fetch(bn=bn, f=f):
                    return self.read_full(None, f, F.n, obj=bn.get_feature_data(f))

                rsig = {"feat": fkind(f), "acc": "full", "mapped": True}
                if self.has_noid(F):
                    rsig["noid"] = True
                st, res = self.guarded("C07.read.exception." + fkind(f), rsig, fetch, allow_keyerror=True)
                if st != "ok":
                    continue
                ctx.checked()
                ln, got = res
                sig = self.sig_for(F, why, f, via="basin")
                if not exp:
                    self.report("C07.other_data", f"{F.name}: a basin delivers feature {f} although none of the file's basin targets is "
                                                  f"reachable (last file-system event {F.fs}): identities {decode(f, got)}", dict(sig, fs=F.fs))
                    bad = True
                    continue
                if ln != F.n:
                    self.report("C07.len", f"{F.name}: feature {f} asked from one of the file's basins has length {ln}, the file holds {F.n} events",
                                dict(sig, what="feature"))
                    bad = True
                    continue
                if not any(equal(f, got, values(f, c)) for c in exp):
                    self.report("C07.value." + why,
                                f"{F.name} (n={F.n}, depth {F.depth}): feature {f} asked from one of the file's basins "
                                f"({'hidden behind a stored feature' if f in F.stored else 'not stored in the file'}) differs from the origin "
                                f"data at the mapped events: delivered identities (provider, event) {decode(f, got)}, expected "
                                f"{[tuple(int(v) for v in x) for x in exp[0][:6]]}", sig)
                    bad = True
        return bad

    # ---- read with an access pattern
    def do_read(self, op):
        ctx = self.ctx
        F = self.pick(op["src"])
        if F is None:
            return
        f = op["feat"] if op["feat"] in ALLF else "pos_x"
        acc = op["acc"]
        rs = seeds.np_rng(op["aseed"], "acc")
        n = F.n
        may = self.cands(F, f, must=False)
        must = self.cands(F, f, must=True)
        if f == "contour" and self.contour_recomputable(F):
            return
        mapped_route = self.mapped_route(F, f)
        sig = {"feat": fkind(f), "acc": acc, "mapped": bool(mapped_route)}
        if self.has_noid(F):
            sig["noid"] = True
        # the index
        if acc == "int":
            index = int(rs.integers(0, n))
        elif acc == "negint":
            index = -int(rs.integers(1, n + 1))
        elif acc == "slice":
            a, b = sorted(int(x) for x in rs.integers(0, n + 1, size=2))
            if a == b:
                a, b = 0, n
            index = slice(a, b)
        elif acc == "slice_step":
            index = slice(int(rs.integers(0, max(1, n // 2))), None, int(rs.integers(2, 5)))
        elif acc == "boolmask":
            index = rs.random(n) < 0.5
            if not index.any():
                index[int(rs.integers(0, n))] = True
        elif acc == "intarray":
            k = int(rs.integers(1, n + 1))
            index = np.sort(rs.choice(n, size=k, replace=False))
        else:
            index = slice(None)
        mut_i = int(rs.integers(0, n)) if acc == "mutate" else None
        if acc == "dtype_first" and fkind(f) != "scalar":
            acc = "full"     # a lossy dtype on first access only makes sense for scalar features
        twice = (0, 1)
        if acc == "asarray2" and n ** self.mapped_levels(F, f) > 20000:
            # the repeated conversion costs n**levels element reads in dclab: one conversion only
            twice = (0,)
            ctx.count("asarray_once_only")
        ds = self.open_ds(F, sig)
        if ds is None:
            return
        ctx.state("read", F.depth, fkind(f), acc, "mapped" if mapped_route else "direct", F.fs)
        other = None
        if f == "trace" and mapped_route:
            # a second referrer that also gets its traces through a mapped basin is in use at the same time
            cand = [self.files[i] for i in self.usable() if self.files[i] is not F and self.mapped_route(self.files[i], "trace")
                    and self.cands(self.files[i], "trace", must=True)]
            if cand:
                G = cand[op["aseed"] % len(cand)]
                try:
                    import dclab
                    with warnings.catch_warnings():
                        warnings.simplefilter("ignore")
                        other = dclab.new_dataset(G.path)
                except Exception:
                    other = None
        try:
            def fetch(ds_=None):
                obj = (ds if ds_ is None else ds_)[f]
                if other is not None and ds_ is None:
                    try:
                        ot = other["trace"]
                        [ot[nm][0] for nm in TRACES if nm in ot]
                        ctx.probe("two_referrers_read_traces_interleaved")
                    except Exception:
                        pass
                if f == "trace":
                    objs = {nm: obj[nm] for nm in TRACES}
                else:
                    objs = {"": obj}
                out = {}
                for nm, o in objs.items():
                    if acc == "len":
                        out[nm] = len(o)
                    elif acc == "dtype_first":
                        # the first whole-array read asks for a lossy dtype, the second is a plain read
                        if fkind(f) == "scalar":
                            out[nm] = [np.asarray(o, dtype=np.int64).astype(np.float64), np.array(np.asarray(o))]
                        else:
                            out[nm] = [np.asarray(o[index])]
                    elif acc == "asarray2":
                        if f == "contour":
                            out[nm] = [[np.asarray(o[i]) for i in range(n)] for _ in twice]
                        else:
                            out[nm] = [np.array(np.asarray(o)) for _ in twice]
                    elif acc == "mutate":
                        # one event is read and the caller writes into what it got; everything read afterwards must still be
                        # the origin's data
                        first = o[mut_i]
                        try:
                            arr = np.asarray(first)
                            arr[...] = 0
                            if arr.size and np.asarray(first).flat[0] == 0:
                                ctx.probe("result_mutated_in_place")
                        except (ValueError, TypeError):
                            ctx.probe("result_read_only")
                        if f == "contour":
                            out[nm] = [np.asarray(c) for c in o[index]]
                        else:
                            out[nm] = np.asarray(o[index])
                    elif f == "contour" and acc in ("int", "negint"):
                        out[nm] = np.asarray(o[index])
                    elif f == "contour":
                        out[nm] = [np.asarray(c) for c in o[index]]
                    else:
                        out[nm] = np.asarray(o[index])
                return out

            fault_fired = False
            ff = op.get("fail_first")
            seam = getattr(self, "rseam", None)
            if ff and seam is not None:
                at_ = ff["at"]
                if ff.get("from_end") is not None:
                    # the fault points of this access are counted on another dataset object of the same file first
                    try:
                        with warnings.catch_warnings():
                            warnings.simplefilter("ignore")
                            import dclab
                            ds0 = dclab.new_dataset(F.path)
                            seam.arm(10 ** 9, "err", only=ff.get("only"))
                            try:
                                fetch(ds0)
                            finally:
                                seam.disarm()
                                ds0.close()
                        at_ = max(0, seam.points - 1 - int(ff["from_end"]))
                    except (StopRun, SystemExit):
                        raise
                    except BaseException:  # noqa: B036
                        at_ = ff["at"]
                seam.arm(at_, ff["kind"], only=ff.get("only"))
                first_exc = None
                try:
                    with warnings.catch_warnings():
                        warnings.simplefilter("ignore")
                        fetch()
                except (StopRun, SystemExit):
                    seam.disarm()
                    raise
                except BaseException as e_:  # noqa: B036 (KeyboardInterrupt is one of the injected kinds)
                    first_exc = e_
                fault_fired = seam.disarm()
                ctx.log("r", f"first attempt {F.name} {f} {acc}", f"fired={fault_fired} raised={type(first_exc).__name__ if first_exc is not None else None}")
                if fault_fired:
                    ctx.fault("read_" + ff["kind"])
                    ctx.probe("access_repeated_after_transient_read_fault")
                    if first_exc is None:
                        ctx.probe("transient_read_fault_swallowed")
                    sig = dict(sig, after_failed_read=True)
            ctx.checked()
            st, got = self.guarded("C07.read.exception." + fkind(f), sig, fetch, allow_keyerror=True, quiet=fault_fired)
            if fault_fired and st in ("exc", "keyerror"):
                # after a failed read the repetition may fail, too (a basin that failed may be given up): never wrong data
                ctx.probe("repetition_after_fault_failed")
                ctx.log("r", f"read {F.name} {f} {acc} repetition failed")
                return
            if st == "exc":
                ctx.log("r", f"read {F.name} {f} {acc} exception")
                return
            if st == "keyerror":
                if must:
                    self.report("C07.available", f"{F.name}: feature {f} is not available although a stored location of a basin points "
                                                 f"to its target (last file-system event: {F.fs})", self.sig_for(F, "read", f, fs=F.fs))
                elif not may and F.fs != "none":
                    ctx.probe("unavailable_confirmed")
                ctx.log("r", f"read {F.name} {f} {acc} unavailable")
                return
            if not may:
                self.report("C07.other_data", f"{F.name}: feature {f} should not be available but data were delivered", self.sig_for(F, "read", f, fs=F.fs))
                return
            if acc == "asarray2":
                ctx.probe("asarray_twice")

            def expected(c):
                if acc == "len":
                    return None
                ci = c if acc == "asarray2" else (c[index].reshape(-1, 2))
                return values(f, ci)

            ok = False
            for c in may:
                if acc == "len":
                    ok = all(v == n for v in got.values())
                    break
                exp = expected(c)
                single = acc in ("int", "negint")

                def cmp(g, e):
                    if f == "contour":
                        return equal("contour", [g], e) if single else equal("contour", g, e)
                    if single:
                        return np.shape(g) == e.shape[1:] and bool(np.array_equal(g, e[0]))
                    return equal("pos_x", g, e)

                if acc == "dtype_first":
                    if fkind(f) == "scalar":
                        ctx.probe("dtype_first_read")
                        good = (np.array_equal(got[""][0], np.asarray(exp).astype(np.int64).astype(np.float64))
                                and cmp(got[""][1], exp))
                    elif f == "trace":
                        good = all(cmp(got[nm][0], exp[nm]) for nm in TRACES)
                    else:
                        good = cmp(got[""][0], exp)
                elif f == "trace":
                    good = all((all(cmp(x, exp[nm]) for x in got[nm]) if acc == "asarray2" else cmp(got[nm], exp[nm])) for nm in TRACES)
                else:
                    good = all(cmp(x, exp) for x in got[""]) if acc == "asarray2" else cmp(got[""], exp)
                if good:
                    ok = True
                    break
            ctx.log("r", f"read {F.name} {f} {acc}", seeds.short_hash([got[k] for k in sorted(got)]) if len(may) == 1 else "amb")
            if not ok:
                g0 = got[sorted(got)[0]]
                self.report("C07.access", f"{F.name} (n={n}): ds['{f}'] accessed with {acc} ({_fmt_index(index)}) differs from the origin data "
                                          f"at the mapped events; delivered {str(g0)[:200]}", sig)
        finally:
            for d_ in (ds, other):
                try:
                    if d_ is not None:
                        d_.close()
                except Exception:
                    pass


def _fmt_index(index):
    if isinstance(index, np.ndarray):
        return f"{index.dtype} array of length {len(index)}"
    return repr(index)


def run(trace, ctx):
    seams.set_knob_chunk_bytes(trace["knobs"]["chunk_bytes"])
    w = World(trace, ctx)
    while True:
        op = ctx.next_op(w.gen_op, max_ops=trace.get("max_ops", 10))
        if op is None:
            break
        w.execute(op)
        ctx.clock.advance(ctx.rng("clock").choice([0, 0, 0.4, 1, 61]))
    ctx.info["sample"] = {"knobs": trace["knobs"], "ops": (trace.get("ops") or [])[:8], "files": len(w.files),
                          "max_depth": max([F.depth for F in w.files] + [0])}


def simplify(trace):
    """smaller origins, shallower hierarchies, no second/internal basin"""
    ops = trace.get("ops") or []
    for i, op in enumerate(ops):
        cands = []
        if op.get("k") == "origin" and op["n"] > 5:
            cands.append(dict(op, n=5))
        if op.get("k") == "origin" and len(op["feats"]) > 2:
            cands.append(dict(op, feats=op["feats"][:len(op["feats"]) // 2]))
        if op.get("k") == "export" and op["depth"] > 0:
            cands.append(dict(op, depth=op["depth"] - 1))
        if op.get("k") == "export" and op.get("box"):
            cands.append(dict(op, box=False))
        if op.get("k") == "store" and op.get("two") != "none":
            cands.append(dict(op, two="none"))
        if op.get("k") == "store" and op.get("internal"):
            cands.append(dict(op, internal=False))
        if op.get("k") == "store" and op.get("own"):
            cands.append(dict(op, own=0))
        if op.get("k") == "store" and op.get("explicit") is not None:
            cands.append(dict(op, explicit=None))
        for c in cands:
            t = dict(trace)
            t["ops"] = ops[:i] + [c] + ops[i + 1:]
            yield t
