"""C19 — remote range-cached access returns the bytes and data of the resource.

World C (simulated network, no threads).  Byte level: seeded seek/tell/read
histories through HTTPFile (and S3File over a stubbed object handle) against a
simulated RFC-7233 range server with transient transport faults; dataset level:
generated .rtdc files served by that server and opened with RTDC_HTTP, compared
with the same bytes opened locally."""
import os

import numpy as np

from dst import gen, seeds, simnet

NAME = "C19"
PROPERTY = "C19"
LEVEL = "exploration"
RULE = ("one evaluation = one seeded history: (bytes) <= 60 seek/tell/read/length/etag operations on an HTTPFile/S3File "
        "with per-run chunk size (1..64), cache capacity (1..5) and resource size around multiples of the chunk size, under "
        "transient connection errors/timeouts (retried by the client), incl. further file objects opened on the same URL with another "
        "chunk size/capacity, optionally after the served resource was replaced, on servers with and without ETag - or (dataset) one generated .rtdc served by the "
        "simulated range server and read through RTDC_HTTP with small chunk/cache knobs, compared with RTDC_HDF5 on the same "
        "bytes. non-trivial = >=1 read and >=1 comparison; distinct = distinct event-log digests")
STATE_MEASURE = "distinct (pos mod c, n relative to c, crosses end?, cache occupancy, evicted chunk re-requested?, retried?) tuples"
PROBES = ["operation_failed_on_error_reply", "read_ends_on_chunk_boundary", "read_spans_3_chunks", "read_reaches_end", "read_crosses_end", "read_all",
          "evicted_chunk_rerequested", "retry_took_2plus_attempts", "outage_longer_than_budget", "keep_chunks_1",
          "server_strict", "server_s3like", "dataset_level", "s3file", "seek_end", "empty_resource",
          "reopened_with_other_chunk_size", "resource_replaced_then_reopened", "server_without_etag",
          "second_resource_on_same_host_open"]
COMPONENTS = {
    "real": ["dclab.http_utils.HTTPFile / ResoluteRequestsSession (retry loop)", "dclab fmt_s3.S3File._parse_header/download_range",
             "dclab RTDC_HTTP + h5py reading through the file object", "requests Session/Response machinery above the transport adapter"],
    "stub": ["requests transport adapter + in-process RFC 7233 object server (two personalities)", "socket module seen by dclab",
             "boto3 object handle (S3)", "wall clock"],
}
ASSUMPTIONS = [
    "the server is RFC 7233 conformant (two personalities for invalid ranges: ignore -> 200 full body, or 416)",
    "only faults the client claims to absorb are injected as must-be-invisible: ConnectionError, ConnectTimeout, ReadTimeout (before the response, or in the middle of the body after the header arrived) in bursts shorter than the 100-attempt budget",
    "outages longer than the budget: the only acceptable outcomes are an exception or correct bytes",
    "5xx statuses and truncated bodies are not injected (the statement does not quantify over server misbehaviour)",
]


def plan(tier):
    if tier == "quick":
        return {"runs": 2400, "budget_s": 50, "run_timeout_s": 40, "det_pairs": 3}
    return {"runs": 150000, "budget_s": 780, "run_timeout_s": 240, "det_pairs": 3}


def make_trace(seed, tier, idx=None):
    r = seeds.rng(seed, "plan")
    sel = (idx if idx is not None else r.randrange(16)) % 16
    klass = "dataset" if sel in (0, 1) else ("s3bytes" if sel == 2 else "bytes")
    c = r.choice([1, 2, 3, 4, 5, 7, 8, 16, 31, 64])
    size = r.choice([0, 1, c - 1, c, c + 1, 2 * c, 3 * c, 3 * c - 1, 3 * c + 1, 7 * c + 2, 20 * c + 3])
    t = {
        "klass": klass,
        "knobs": {"chunk": c, "keep": r.choice([1, 2, 2, 3, 5]), "size": max(0, size),
                  "personality": r.choice(["strict", "s3like"]),
                  "fault_rate": r.choice([0.0, 0.0, 0.1, 0.2]), "slow_rate": r.choice([0.0, 0.0, 0.05]),
                  "long_outage": r.random() < 0.06, "no_etag": r.random() < 0.25, "reopen_rate": r.choice([0.0, 0.04, 0.1]),
                  "stall_rate": r.choice([0.0, 0.0, 0.1, 0.25])},
        "max_ops": r.choice([8, 20, 40, 60]),
        "ops": None,
    }
    if klass == "dataset":
        # (h5py issues thousands of small reads: tiny chunks with a tiny cache mean ~1e5 simulated requests)
        t["knobs"].update({"chunk": r.choice([2 ** 12, 2 ** 14, 2 ** 16]), "keep": r.choice([8, 40, 200]),
                           "n": r.choice([3, 7, 11]), "contour": r.random() < 0.4, "trace": r.random() < 0.4,
                           "tables": r.randrange(2)})
        t["max_ops"] = r.choice([6, 12])
    return t


class ByteWorld:
    def __init__(self, trace, ctx):
        import dclab.http_utils as hu
        self.t, self.ctx = trace, ctx
        k = trace["knobs"]
        self.net = simnet.SimNet(ctx).install()
        host = self.net.host("obj-1.sim.test", k["personality"])
        ctx.probe("server_" + k["personality"])
        if k.get("no_etag"):
            ctx.probe("server_without_etag")
        rs = seeds.np_rng(ctx.seed, "blob")
        self.blob = rs.integers(0, 256, size=k["size"], dtype=np.uint8).tobytes()
        if k["size"] == 0:
            ctx.probe("empty_resource")
        self.c, self.keep = k["chunk"], k["keep"]
        host.no_etag = bool(k.get("no_etag"))
        self.host = host
        if self.keep == 1:
            ctx.probe("keep_chunks_1")
        if trace["klass"] == "s3bytes":
            import dclab.rtdc_dataset.fmt_s3 as fs3
            self.url = "http://obj-1.sim.test:80/bucket/key-1"
            self.path = "/bucket/key-1"
            host.objects["/bucket/key-1"] = self.blob
            self.f = fs3.S3File("bucket/key-1", "http://obj-1.sim.test:80")
            self.f._chunk_size, self.f._keep_chunks = self.c, self.keep
            ctx.probe("s3file")
        else:
            self.url = "http://obj-1.sim.test/data/blob.bin"
            self.path = "/data/blob.bin"
            host.objects["/data/blob.bin"] = self.blob
            self.f = hu.HTTPFile(self.url, chunk_size=self.c, keep_chunks=self.keep)
        self.pos = 0
        self.L = len(self.blob)
        self.seen_chunks = set()
        self.evicted = set()
        self.outage_used = False

    def gen_op(self, r):
        op = self.gen_op0(r)
        if self.t["klass"] == "bytes" and op["k"] in ("read", "length", "etag", "seek") and r.random() < 0.07:
            # the server answers one request of this operation with a 503 error page (once)
            op["err503"] = r.choice([0, 0, 0, 1, 2])
        return op

    def gen_op0(self, r):
        L, c = self.L, self.c
        if self.t["klass"] == "bytes" and r.random() < self.t["knobs"].get("reopen_rate", 0.0):
            # a second file object on the same URL (other chunk grid / capacity), optionally after the resource was replaced
            op = {"k": "reopen", "chunk": r.choice([1, 2, 3, 5, 8, 16, 31, 64, c, 2 * c]), "keep": r.choice([1, 2, 3, 5])}
            if r.random() < 0.35:
                op["replace"] = {"size": r.choice([L, L, max(0, L - 1), L + 1, 2 * L + 3]), "bseed": r.randrange(1 << 30)}
            return op
        if self.t["klass"] == "bytes" and r.random() < 0.03:
            # another resource on the same host is opened (and stays open) while this one is in use
            return {"k": "other", "size": r.choice([1, c, 3 * c + 1, 40]), "bseed": r.randrange(1 << 30), "chunk": r.choice([1, 4, 16, c])}
        x = r.random()
        if x < 0.38:
            whence = r.choice([0, 0, 1, 2])
            if whence == 0:
                off = r.choice([0, r.randint(0, max(0, L)), max(0, L - r.randint(0, 2 * c)), (r.randint(0, max(1, L // max(1, c)))) * c])
                off = min(off, L + (2 if r.random() < 0.05 else 0))
            elif whence == 1:
                off = r.randint(-min(self.pos, 2 * c), 2 * c)
                if self.pos + off > L:
                    off = L - self.pos
            else:
                off = -r.randint(0, min(L, 3 * c))
            return {"k": "seek", "off": off, "whence": whence}
        if x < 0.46:
            return {"k": "tell"}
        if x < 0.50:
            return {"k": r.choice(["length", "etag"])}
        # read sizes biased to chunk boundaries, spans and the end of the resource
        rem = max(0, L - self.pos)
        to_boundary = (c - self.pos % c) % c or c
        n = r.choice([1, to_boundary, to_boundary + c, 3 * c, 3 * c + 1, c - 1 or 1, rem, max(1, rem - 1), rem + 1, rem + c,
                      r.randint(1, 4 * c), 0])
        if r.random() < 0.05:
            n = -1
        op = {"k": "read", "n": n, "fseed": r.randrange(1 << 30)}
        if self.t["knobs"]["long_outage"] and not self.outage_used and r.random() < 0.2:
            op["outage"] = r.choice(["conn", "read_timeout"])
            self.outage_used = True
        return op

    def execute(self, op):
        ctx, f = self.ctx, self.f
        k = op["k"]
        L, c = self.L, self.c
        net = self.net
        knobs = self.t["knobs"]
        net.fault_rng = seeds.rng(op.get("fseed", 0), "net")
        net.fault_rate = knobs["fault_rate"] if self.t["klass"] != "s3bytes" else 0.0
        net.slow_rate = knobs["slow_rate"] if self.t["klass"] != "s3bytes" else 0.0
        net.stall_rate = knobs.get("stall_rate", 0.0) if self.t["klass"] != "s3bytes" else 0.0
        net.fault_burst = 0
        if k == "other":
            import dclab.http_utils as hu
            rs = seeds.np_rng(op["bseed"], "blob")
            blob2 = rs.integers(0, 256, size=op["size"], dtype=np.uint8).tobytes()
            self.n_other = getattr(self, "n_other", 0) + 1
            path2 = f"/data/other{self.n_other}.bin"
            self.host.objects[path2] = blob2
            with ctx.sut("C19.other.open"):
                f2 = hu.HTTPFile(f"http://obj-1.sim.test{path2}", chunk_size=op["chunk"], keep_chunks=2)
                got2 = f2.read(min(5, len(blob2)))
            ctx.checked()
            if bytes(got2) != blob2[:min(5, len(blob2))]:
                ctx.violation("C19.read.bytes", "first bytes of a second resource on the same host differ from what the server holds", sig={"what": "other"})
            self.others = getattr(self, "others", []) + [f2]
            ctx.probe("second_resource_on_same_host_open")
            ctx.log("c", f"other {path2} {len(blob2)}")
            return
        if k == "reopen":
            import dclab.http_utils as hu
            if op.get("replace"):
                rs = seeds.np_rng(op["replace"]["bseed"], "blob")
                self.blob = rs.integers(0, 256, size=op["replace"]["size"], dtype=np.uint8).tobytes()
                self.host.objects[self.path] = self.blob
                self.host.etags.clear()
                self.L = len(self.blob)
                ctx.probe("resource_replaced_then_reopened")
            if op["chunk"] != self.c:
                ctx.probe("reopened_with_other_chunk_size")
            self.c, self.keep = op["chunk"], op["keep"]
            with ctx.sut("C19.reopen"):
                self.f = hu.HTTPFile(self.url, chunk_size=self.c, keep_chunks=self.keep)
            self.pos = 0
            self.seen_chunks, self.evicted = set(), set()
            ctx.log("c", f"reopen chunk {self.c} keep {self.keep} replaced {bool(op.get('replace'))}")
            return
        n503 = getattr(net, "n_error_replies", 0)
        net.error_reply_at = op.get("err503") if self.t["klass"] == "bytes" else None

        class _Tolerant:
            """an operation during which the server sent an error page may fail (with any exception); it must not succeed wrongly"""
            def __init__(s_, inner):
                s_.inner, s_.exc = inner, None

            def __enter__(s_):
                s_.inner.__enter__()
                return s_

            def __exit__(s_, et, ev, tb):
                hit = getattr(net, "n_error_replies", 0) > n503
                net.error_reply_at = None
                if et is not None and issubclass(et, Exception) and hit:
                    s_.exc = ev
                    ctx.probe("operation_failed_on_error_reply")
                    ctx.log("c", f"{k} failed on a 503 reply", et.__name__)
                    try:
                        f.seek(self.pos)
                    except Exception:
                        pass
                    return True
                r_ = s_.inner.__exit__(et, ev, tb)
                s_.exc = s_.inner.exc
                return r_
        if k == "seek":
            with _Tolerant(ctx.sut("C19.seek")) as s_:
                f.seek(op["off"], op["whence"])
            if s_.exc is not None:
                return
            if op["whence"] == 0:
                self.pos = op["off"]
            elif op["whence"] == 1:
                self.pos += op["off"]
            else:
                self.pos = L + op["off"]
                ctx.probe("seek_end")
            ctx.log("c", f"seek {op['off']} {op['whence']}")
            return
        if k == "tell":
            ctx.checked()
            with ctx.sut("C19.tell"):
                got = f.tell()
            if got != self.pos:
                ctx.violation("C19.tell", f"tell() = {got}, expected {self.pos}", sig={})
            ctx.log("c", "tell", got)
            return
        if k == "length":
            ctx.checked()
            with _Tolerant(ctx.sut("C19.length")) as s_:
                got = f.length
            if s_.exc is not None:
                return
            if got != L:
                ctx.violation("C19.length", f"length = {got}, expected {L}")
            return
        if k == "etag":
            with _Tolerant(ctx.sut("C19.etag")):
                f.etag
            return
        # read
        n = op["n"]
        pos = self.pos
        if pos < 0:
            return
        exp = self.blob[pos:] if n < 0 else self.blob[pos:pos + n]
        long_outage = bool(op.get("outage"))
        if long_outage and self.t["klass"] != "s3bytes":
            net.outage = (op["outage"], None)
            ctx.probe("outage_longer_than_budget")
        faults_before, reqs_before = net.n_faults, net.n_requests
        import requests
        allow = (requests.exceptions.ReadTimeout,) if long_outage else None
        with _Tolerant(ctx.sut("C19.read", allow=allow, sig={"crosses_end": bool(n >= 0 and pos + n > L), "neg": n < 0})) as s:
            got = f.read(n)
        net.outage = None
        ctx.state_ops += 1
        if s.exc is not None:
            ctx.log("c", f"read {n} @ {pos} -> raised under outage")
            return
        ctx.checked()
        crosses = n >= 0 and pos + n > L
        # probes / states
        if n > 0 and (pos + n) % c == 0:
            ctx.probe("read_ends_on_chunk_boundary")
        if n > 0 and (pos + n - 1) // c - pos // c >= 2:
            ctx.probe("read_spans_3_chunks")
        if n > 0 and pos + n == L:
            ctx.probe("read_reaches_end")
        if crosses:
            ctx.probe("read_crosses_end")
        if n < 0:
            ctx.probe("read_all")
        if net.n_faults - faults_before >= 2:
            ctx.probe("retry_took_2plus_attempts")
        touched = set(range(pos // c, (min(pos + max(n, 0), L) - 1) // c + 1)) if n != 0 and pos < L else set()
        re_req = bool(touched & self.evicted)
        if re_req:
            ctx.probe("evicted_chunk_rerequested")
        self.seen_chunks |= touched
        now_cached = set(f.cache.keys())
        self.evicted = (self.evicted | self.seen_chunks) - now_cached
        ctx.state(pos % c, "lt" if 0 <= n < c else ("eq" if n == c else ("neg" if n < 0 else "gt")), crosses, len(f.cache), re_req,
                  net.n_faults > faults_before)
        if bytes(got) != exp:
            sig = {"crosses_end": bool(crosses), "neg": n < 0, "personality": knobs["personality"] if self.t["klass"] == "bytes" else "s3"}
            ctx.violation("C19.read.bytes",
                          f"read({n}) at {pos} of a {L}-byte resource (chunk {c}, keep {self.keep}) returned {len(got)} bytes "
                          f"{bytes(got)[:24]!r}..., expected {len(exp)} bytes {exp[:24]!r}...", sig=sig)
        if len(f.cache) > self.keep:
            ctx.violation("C19.cache.size", f"{len(f.cache)} chunks cached, capacity {self.keep}", sig={})
        self.pos = pos + len(exp)
        ctx.log("c", f"read {n} @ {pos}", seeds.short_hash(bytes(got)))


def run_bytes(trace, ctx):
    w = ByteWorld(trace, ctx)
    while True:
        op = ctx.next_op(w.gen_op, max_ops=trace.get("max_ops", 30))
        if op is None:
            break
        w.execute(op)
    ctx.info["sample"] = {"klass": trace["klass"], "knobs": trace["knobs"], "ops": (trace.get("ops") or [])[:8],
                          "requests": w.net.n_requests, "faults": w.net.n_faults}


def run_dataset(trace, ctx):
    import dclab
    import dclab.rtdc_dataset.fmt_http as fh
    import dclab.http_utils as hu
    k = trace["knobs"]
    net = simnet.SimNet(ctx).install()
    host = net.host("files.sim.test", k["personality"])
    ctx.probe("server_" + k["personality"])
    ctx.probe("dataset_level")
    m = gen.gen_model(ctx.seed, k["n"], contour=k["contour"], trace=k["trace"], fl=k["trace"], n_logs=2, n_tables=k["tables"],
                      nan_mode="some")
    local = ctx.scratch / "served.rtdc"
    gen.write_model(m, local, compression=["zstd", "none", "gzip"][ctx.seed % 3])
    host.objects["/ds/served.rtdc"] = local.read_bytes()
    url = "http://files.sim.test/ds/served.rtdc"

    class KnobHTTPFile(hu.HTTPFile):
        def __init__(self, url_, chunk_size=k["chunk"], keep_chunks=k["keep"]):
            super().__init__(url_, chunk_size=chunk_size, keep_chunks=keep_chunks)
    fh.HTTPFile = KnobHTTPFile
    net.fault_rng = seeds.rng(ctx.seed, "net")
    net.fault_rate = k["fault_rate"]
    net.slow_rate = k["slow_rate"]
    net.stall_rate = k.get("stall_rate", 0.0)
    with ctx.sut("C19.dataset.open"):
        dsr = fh.RTDC_HTTP(url)
    dsl = dclab.new_dataset(local)
    ctx.state_ops += 1
    try:
        ctx.checked()
        if sorted(dsr.features_innate) != sorted(dsl.features_innate):
            ctx.violation("C19.dataset.features", f"{sorted(dsr.features_innate)} != {sorted(dsl.features_innate)}")

        def gen_op(r):
            f = r.choice(sorted(dsl.features_innate))
            return {"k": "feat", "feat": f, "how": r.choice(["all", "idx", "slice"]), "i": r.randrange(1 << 20)}
        while True:
            op = ctx.next_op(gen_op, max_ops=trace.get("max_ops", 8))
            if op is None:
                break
            f = op["feat"]
            if f not in dsl.features_innate:
                continue
            n = len(dsl)
            i = op["i"] % n
            ctx.checked()
            with ctx.sut("C19.dataset.read", sig={"feat": f}):
                if f == "trace":
                    name = sorted(dsl["trace"].keys())[op["i"] % len(dsl["trace"].keys())]
                    a, b = dsr["trace"][name][i], dsl["trace"][name][i]
                elif f == "contour" or op["how"] == "idx":
                    a, b = dsr[f][i], dsl[f][i]
                elif op["how"] == "slice":
                    a, b = dsr[f][i:i + 5], dsl[f][i:i + 5]
                else:
                    a, b = dsr[f][:], dsl[f][:]
            if not np.array_equal(np.asarray(a), np.asarray(b), equal_nan=np.asarray(b).dtype.kind == "f"):
                ctx.violation("C19.dataset.feature", f"feature {f} ({op['how']}, {i}) differs between HTTP and local access",
                              sig={"feat": f})
            ctx.log("c", f"feat {f} {op['how']} {i}", seeds.short_hash(np.asarray(b)))
            if len(dsr._fhttp.cache) > k["keep"]:
                ctx.violation("C19.cache.size", f"{len(dsr._fhttp.cache)} chunks cached, capacity {k['keep']}")
        ctx.checked()
        with ctx.sut("C19.dataset.meta"):
            ca, cb = dsr.config.as_dict(), dsl.config.as_dict()
        for sec in cb:
            if sec in ("filtering", "calculation"):
                continue
            if ca.get(sec) != cb[sec]:
                ctx.violation("C19.dataset.meta", f"section {sec} differs: {ca.get(sec)} != {cb[sec]}")
        with ctx.sut("C19.dataset.logs"):
            la = {kk: list(dsr.logs[kk]) for kk in dsr.logs}
            lb = {kk: list(dsl.logs[kk]) for kk in dsl.logs}
        if la != lb:
            ctx.violation("C19.dataset.logs", "logs differ between HTTP and local access")
        with ctx.sut("C19.dataset.tables"):
            ta = {kk: (dsr.tables[kk][:].tobytes(), sorted(dict(dsr.tables[kk].attrs))) for kk in dsr.tables}
            tb = {kk: (dsl.tables[kk][:].tobytes(), sorted(dict(dsl.tables[kk].attrs))) for kk in dsl.tables}
        if ta != tb:
            ctx.violation("C19.dataset.tables", "tables differ between HTTP and local access")
    finally:
        dsl.close()
        try:
            dsr.close()
        except Exception:
            pass
    ctx.info["sample"] = {"klass": "dataset", "knobs": k, "bytes": len(host.objects["/ds/served.rtdc"]),
                          "requests": net.n_requests, "faults": net.n_faults, "ops": (trace.get("ops") or [])[:6]}


def run(trace, ctx):
    if trace["klass"] == "dataset":
        run_dataset(trace, ctx)
    else:
        run_bytes(trace, ctx)
