"""C13 — the integrity checker accepts dclab's own output and flags real inconsistencies.

World A, single actor.  One run = a seeded history over a population of files:
"produce" operations create files through every dclab write path (writer
session, export.hdf5 filtered/unfiltered, compress, repack, condense, split,
join) from generated datasets with complete metadata -- every product must be
reported without violations (closure), and a file and its compressed/repacked
copy must receive the same violations; "corrupt" operations copy a valid
product and apply one or two seeded inconsistencies with raw h5py -- each
injected inconsistency must appear among the violations (detection)."""
import contextlib
import io
import re
import shutil
import warnings

import numpy as np

from dst import gen, seeds, seams, h5digest

NAME = "C13"
PROPERTY = "C13"
LEVEL = "exploration"
RULE = ("one evaluation = one seeded history (<= 12 operations, files of 3..40 events, images 8x12): write (gen_model with "
        "complete metadata incl. fluorescence when fl/trace features are present, written by RTDCWriter), export.hdf5 "
        "(filtered/unfiltered, +-basins/logs/tables, all innate features / without fluorescence features / random subset), compress, repack(+-strip), condense, split, join of two products; "
        "corrupt = copy of a valid product + one or two raw-h5py inconsistencies out of {feature length, contour count, roi size, "
        "unknown feature, missing mandatory key, non-enumerating index, channel count, laser count, samples per event, external "
        "link, non-positive set-up value}. Oracles: closure (no violations for products; same list for a file and its "
        "compress/repack copy), detection (each injected inconsistency among the violations; metadata-only corruptions: the copy "
        "reports the same list). non-trivial = at least one product or corruption checked; distinct = distinct event-log digests")
STATE_MEASURE = "distinct (operation, producer of the source, corruption kinds / options) tuples"
PROBES = ["metadata_rectified_mid_session", "closure_writer", "closure_export", "closure_compress", "closure_repack", "closure_condense", "closure_split",
          "closure_join", "copy_same_valid", "corrupt_single", "corrupt_pair", "corrupt_copy_compared",
          "k_feat_len", "k_contour_len", "k_roi", "k_unknown_feat", "k_missing_key", "k_index", "k_channel_count",
          "k_laser_count", "k_samples", "k_extlink", "k_nonpositive", "fluorescence_product", "trace_without_flmax",
          "stored_index", "fl3_only_product", "index_rewritten_in_replace_mode", "export_feature_subset", "export_overrides_existing_file", "three_writer_sessions_one_without_exit", "feature_deregistered_between_writers", "switched_off_laser_defined", "checked_before_corrupted_in_place",
          "basin_export_without_some_features"]
COMPONENTS = {
    "real": ["dclab.rtdc_dataset.check (IntegrityChecker, check_dataset)", "dclab RTDCWriter, export.hdf5, cli compress/repack/"
             "condense/split/join", "RTDC_HDF5 reader", "h5py/HDF5 + hdf5plugin on tmpfs"],
    "stub": ["wall clock (virtual)", "uuid/random identifiers (seeded)", "dclab version string (0.99.0)"],
}
ASSUMPTIONS = [
    "complete metadata = gen.BASE_META (+ gen.FL_META when fl?_max or trace data are stored); the list of mandatory keys is frozen "
    "in checks/c13.py (MANDATORY / MANDATORY_FL), not read from check.py",
    "an injected inconsistency counts as reported when a violation message contains the key/feature-specific cue text listed in "
    "checks/c13.py (EXPECT comments at each corruption)",
    "producer operations that raise belong to C08/C09/C02 and are counted, not judged",
    "the same-violations clause for copies is evaluated for valid products and for metadata-only corruptions (structural ones are "
    "legitimately normalised by a copy)",
]

CHUNK_KNOBS = [1024 ** 2, 1024 ** 2, 640, 960]
MANDATORY = {
    "experiment": ["date", "event count", "run index", "sample", "time"],
    "imaging": ["flash device", "flash duration", "frame rate", "pixel size", "roi position x", "roi position y",
                "roi size x", "roi size y"],
    "setup": ["channel width", "chip region", "flow rate", "medium"],
}
MANDATORY_FL = {
    "fluorescence": ["bit depth", "channel count", "channels installed", "laser count", "lasers installed", "sample rate",
                     "samples per event", "signal max", "signal min", "trace median"],
}
POSITIVE = [("setup", "channel width"), ("setup", "flow rate"), ("imaging", "pixel size"), ("imaging", "frame rate")]
META_ONLY = {"roi", "missing_key", "channel_count", "laser_count", "samples", "nonpositive"}
KINDS = ["feat_len", "feat_len", "contour_len", "roi", "unknown_feat", "missing_key", "missing_key", "index", "channel_count",
         "laser_count", "samples", "extlink", "nonpositive"]
SCALAR_POOL = gen.FLOAT_SCALARS + ["time", "frame", "index_online", "nevents", "ml_class"]


def plan(tier):
    if tier == "quick":
        return {"runs": 480, "budget_s": 40, "run_timeout_s": 180, "det_pairs": 3}
    return {"runs": 40000, "budget_s": 780, "run_timeout_s": 300, "det_pairs": 3}


def make_trace(seed, tier):
    r = seeds.rng(seed, "plan")
    return {"knobs": {"chunk_bytes": r.choice(CHUNK_KNOBS)}, "max_ops": r.choice([4, 7, 12]), "ops": None}


@contextlib.contextmanager
def quiet():
    with warnings.catch_warnings():
        warnings.simplefilter("ignore")
        with contextlib.redirect_stdout(io.StringIO()):
            yield


def cue_class(msg):
    """message with names and numbers removed (signature of a violation kind)"""
    return re.sub(r"\s+", " ", re.sub(r"'[^']*'|\([^)]*\)|[-0-9.]+", "", msg)).strip()[:70]


class World:
    def __init__(self, trace, ctx):
        self.t, self.ctx = trace, ctx
        self.dir = ctx.scratch
        self.files = []     # valid products: dicts name, producer, facts
        self.counter = 0

    def newname(self, tag):
        self.counter += 1
        return f"f{self.counter:02d}_{tag}.rtdc"

    # ---------------- generation ----------------
    def gen_op(self, r):
        nf = len(self.files)
        x = r.random()
        if nf == 0 or (nf < 2 and x < 0.5) or x < 0.10:
            fl = r.random() < 0.45
            return {"k": "write", "dseed": r.randrange(1 << 30), "n": r.choice([3, 5, 9, 14, 23, 40]), "fl": fl,
                    "trace": (fl and r.random() < 0.6) or (not fl and r.random() < 0.12), "image": r.random() < 0.6,
                    "mask": r.random() < 0.5, "contour": r.random() < 0.3, "index": r.random() < 0.3,
                    "flset": r.choice([[1, 2], [1, 2], [1], [2], [3], [3], [1, 3], [1, 2, 3]]),
                    "rewrite_index": r.random() < 0.25, "laser_off": r.random() < 0.3, "sessions3": r.random() < 0.3, "ghost": r.random() < 0.2, "checkpoint": r.random() < 0.3,
                    "cmp": r.choice(["zstd", "zstd1", "gzip", "none"])}
        src = r.randrange(1 << 16)
        if x < 0.22:
            return {"k": "export", "src": src, "filtered": r.random() < 0.6, "mseed": r.randrange(1 << 30),
                    "basins": r.random() < 0.3, "logs": r.random() < 0.5, "tables": r.random() < 0.5,
                    "feats": r.choice(["innate", "innate", "no_fl", "subset"]), "fseed": r.randrange(1 << 20),
                    "onto": r.choice([0, 0, r.randrange(1, 1 << 16)])}
        if x < 0.36:
            tool = r.choice(["compress", "repack", "condense"])
            opts = {}
            if tool == "repack":
                opts = {"strip_logs": r.random() < 0.3, "strip_basins": r.random() < 0.3}
            elif tool == "condense":
                opts = {"store_ancillary_features": r.random() < 0.5, "store_basin_features": r.random() < 0.5}
            return {"k": "tool", "src": src, "tool": tool, "opts": opts}
        if x < 0.43:
            return {"k": "split", "src": src, "parts": r.choice([2, 3])}
        if x < 0.50:
            return {"k": "join", "srcs": [src, r.randrange(1 << 16)]}
        f = self.files[src % nf]["facts"]
        pool = [k for k in KINDS if self.applicable(k, f)]
        kinds = [r.choice(pool)]
        if r.random() < 0.4:
            k2 = r.choice(pool)
            if k2 != kinds[0] and {k2, kinds[0]} != {"feat_len", "contour_len"}:
                kinds.append(k2)
        return {"k": "corrupt", "src": src, "kinds": kinds, "dseed": r.randrange(1 << 30), "tool": r.choice(["compress", "repack"])}

    @staticmethod
    def applicable(kind, f):
        if kind == "contour_len":
            return f["contour"]
        if kind == "roi":
            return f["image"]
        if kind in ("channel_count", "laser_count"):
            return f["fl"]
        if kind == "samples":
            return f["trace"]
        return True

    def execute(self, op):
        getattr(self, "do_" + op["k"])(op)

    def facts(self, name):
        import h5py
        with h5py.File(self.dir / name, "r") as h:
            ev = h.get("events", {})
            return {"image": any(k in ev for k in ("image", "mask", "image_bg")),
                    "fl": any(f"fl{i}_max" in ev for i in (1, 2, 3)),
                    "trace": "trace" in ev and len(ev["trace"]) > 0, "contour": "contour" in ev, "index": "index" in ev,
                    "feats": sorted(ev)}

    def add(self, name, producer):
        self.files.append({"name": name, "producer": producer, "facts": self.facts(name)})

    def pick(self, ref):
        return self.files[ref % len(self.files)] if self.files else None

    def skipped(self, what, e):
        self.ctx.count("skipped_producer_" + what)
        self.ctx.log("p", f"{what} failed: {type(e).__name__}")

    # ---------------- the checker under test ----------------
    def check(self, name, sig_what):
        """violations reported for the file, or None when the checker itself raised (recorded as a violation)"""
        from dclab.rtdc_dataset.check import check_dataset
        ctx = self.ctx
        with ctx.sut("C13.check.raises", sig={"what": sig_what}, fatal=False) as s:
            with quiet():
                viol, _aler, _info = check_dataset(self.dir / name)
        if s.exc is not None:
            return None
        return sorted(viol)

    def closure(self, name, producer):
        ctx = self.ctx
        viol = self.check(name, "product")
        ctx.checked()
        if viol is None:
            return None
        if viol:
            import h5py
            with h5py.File(self.dir / name, "r") as h:
                nfl = sum(f"fl{i}_max" in h.get("events", {}) for i in (1, 2, 3))
                chc = int(h.attrs.get("fluorescence:channel count", 0))
            # (some but not all of the fluorescence channels' features were left out by a feature-subset export)
            partial = bool(producer == "export" and 0 < nfl < chc)
            ctx.violation("C13.closure", f"{producer} product {name} is reported with violations {viol[:6]}"
                          + (f" ({nfl} of {chc} fl?_max features exported)" if partial else ""),
                          sig={"producer": producer, "cue": cue_class(viol[0]), "partial_fl_export": partial, "n_viol": len(viol)}, fatal=False)
        ctx.probe("closure_" + producer)
        ctx.log("o", f"closure {producer} {name}", len(viol))
        return viol

    # ---------------- producers ----------------
    def do_write(self, op):
        ctx = self.ctx
        pr = seeds.rng(op["dseed"], "opts")
        n = op["n"]
        idx = self.counter
        scal = pr.sample(SCALAR_POOL, pr.randint(1, 6))
        if op.get("index"):
            scal.append("index")
        extra = {"experiment": {"time": "1%d:%02d:%02d" % (idx % 10, (op["dseed"] >> 3) % 60, op["dseed"] % 60),
                                "run index": 1 + idx % 9, "date": "2020-03-%02d" % (1 + (op["dseed"] >> 9) % 28)}}
        m = gen.gen_model(op["dseed"], n, scalars=scal, image=op["image"], mask=op["mask"], contour=op["contour"],
                          trace=op["trace"], fl=op["fl"], n_logs=pr.randint(0, 2), n_tables=pr.randint(0, 1),
                          nan_mode=pr.choice(["none", "none", "some"]), meta_extra=extra, long_logs=False)
        if "index" in m.feats:
            m.feats["index"] = np.arange(1, n + 1)
        if op["fl"]:
            # which fluorescence channels the measurement has (with matching channel names and count)
            flset = op.get("flset") or [1, 2]
            vals = [m.feats.pop(f) for f in ("fl1_max", "fl2_max") if f in m.feats]
            for ch in (1, 2, 3):
                m.meta["fluorescence"].pop(f"channel {ch} name", None)
            for j, ch in enumerate(flset):
                m.feats[f"fl{ch}_max"] = vals[j % len(vals)].copy()
                m.meta["fluorescence"][f"channel {ch} name"] = ["525/50", "593/46", "700/75"][ch - 1]
            m.meta["fluorescence"]["channel count"] = len(flset)
            if op.get("laser_off"):
                # an installed third laser that is switched off (power 0): defined, but not part of the laser count
                m.meta["fluorescence"]["laser 3 lambda"] = 640.0
                m.meta["fluorescence"]["laser 3 power"] = 0.0
                ctx.probe("switched_off_laser_defined")
            if flset == [3]:
                ctx.probe("fl3_only_product")
        name = self.newname("w")
        if op.get("ghost"):
            # a temporary feature that another writer stored while it was registered; it is deregistered again before this
            # file is written and this writer is asked to store it as well (must be refused)
            import dclab
            from dclab.rtdc_dataset.writer import RTDCWriter
            try:
                with quiet():
                    dclab.register_temporary_feature("ghost_c13")
                    with RTDCWriter(self.dir / (name[:-5] + "_ghost.rtdc"), mode="reset") as hwg:
                        hwg.store_metadata({"setup": {"software version": "ShapeIn 2.2.2.4"}, "experiment": {"sample": "g", "run index": 1}})
                        hwg.store_feature("deform", np.linspace(0.01, 0.02, 3))
                        hwg.store_feature("ghost_c13", np.arange(3.0))
                    from dclab.rtdc_dataset.feat_temp import deregister_temporary_feature
                    deregister_temporary_feature("ghost_c13")
                (self.dir / (name[:-5] + "_ghost.rtdc")).unlink()
                ctx.probe("feature_deregistered_between_writers")
            except Exception as e:
                self.skipped("ghost", e)
        try:
            with quiet():
                if op.get("sessions3") and n >= 3 and "index" in m.feats:
                    # three sessions on one file; the middle one is closed without leaving a with-block (hw.close()):
                    # the event count is not rectified there
                    from dclab.rtdc_dataset.writer import RTDCWriter
                    a, b = max(1, n // 3), max(2, 2 * n // 3)
                    parts = [m.select(np.arange(0, a)), m.select(np.arange(a, b)), m.select(np.arange(b, n))]
                    for pi, part in enumerate(parts):
                        if "index" in part.feats:
                            part.feats.pop("index")
                    gen.write_model(parts[0], self.dir / name, compression=op["cmp"])
                    with RTDCWriter(self.dir / name, mode="append") as hw:
                        hw.store_feature("index", np.arange(1, a + 1))
                    hw2 = RTDCWriter(self.dir / name, mode="append")
                    for f, v in parts[1].feats.items():
                        hw2.store_feature(f, v)
                    hw2.store_feature("index", np.arange(a + 1, b + 1))
                    hw2.close()
                    with RTDCWriter(self.dir / name, mode="append") as hw3:
                        for f, v in parts[2].feats.items():
                            hw3.store_feature(f, v)
                        hw3.store_feature("index", np.arange(b + 1, n + 1))
                    ctx.probe("three_writer_sessions_one_without_exit")
                elif op.get("checkpoint") and n >= 3:
                    # one session that writes, rectifies the metadata explicitly (a checkpoint while recording) and writes on
                    from dclab.rtdc_dataset.writer import RTDCWriter
                    a, b = max(1, n // 3), max(2, 2 * n // 3)
                    parts = [m.select(np.arange(0, a)), m.select(np.arange(a, b)), m.select(np.arange(b, n))]
                    gen.write_model(parts[0], self.dir / name, compression=op["cmp"])
                    with RTDCWriter(self.dir / name, mode="append") as hwc:
                        for f, v in parts[1].feats.items():
                            hwc.store_feature(f, v)
                        hwc.rectify_metadata()
                        for f, v in parts[2].feats.items():
                            hwc.store_feature(f, v)
                    ctx.probe("metadata_rectified_mid_session")
                else:
                    gen.write_model(m, self.dir / name, compression=op["cmp"])
                if op.get("ghost"):
                    from dclab.rtdc_dataset.writer import RTDCWriter
                    with RTDCWriter(self.dir / name, mode="append") as hwx:
                        try:
                            hwx.store_feature("ghost_c13", np.arange(float(n)))
                        except ValueError:
                            pass
                if op.get("rewrite_index") and "index" in m.feats:
                    # a second writer session in replace mode stores the index again (still dclab's own writer)
                    from dclab.rtdc_dataset.writer import RTDCWriter
                    with RTDCWriter(self.dir / name, mode="replace") as hw:
                        hw.store_feature("index", np.arange(1, n + 1))
                    ctx.probe("index_rewritten_in_replace_mode")
        except Exception as e:
            return self.skipped("writer", e)
        ctx.state_ops += 1
        ctx.state("write", op["fl"], op["trace"], op["image"] or op["mask"], op["contour"])
        if op["fl"]:
            ctx.probe("fluorescence_product")
        if op["trace"] and not op["fl"]:
            ctx.probe("trace_without_flmax")
        if op.get("index"):
            ctx.probe("stored_index")
        ctx.log("p", f"write {name} n={n} feats={sorted(m.feats)}", h5digest.h5_digest(self.dir / name))
        self.closure(name, "writer")
        self.add(name, "writer")

    def do_export(self, op):
        import dclab
        ctx = self.ctx
        src = self.pick(op["src"])
        if src is None:
            return
        name = self.newname("e")
        rs = seeds.np_rng(op["mseed"], "mask")
        feats_partial_fl = False
        try:
            with quiet(), dclab.new_dataset(self.dir / src["name"]) as ds:
                n = len(ds)
                mask = rs.random(n) < rs.choice([0.3, 0.6, 0.9])
                if not mask.any():
                    mask[int(rs.integers(0, n))] = True
                ds.filter.manual[:] = mask
                ds.apply_filter()
                feats = list(ds.features_innate)
                how = op.get("feats", "innate")
                if how == "no_fl":
                    # a (basin-based) export that leaves the fluorescence features to the original file
                    feats = [f for f in feats if not (f.startswith("fl") or f == "trace")] or feats
                elif how == "subset":
                    pr = seeds.rng(op.get("fseed", 0), "feats")
                    feats = [f for f in feats if pr.random() < 0.5] or feats[:1]
                nfl_src = sum(f"fl{i}_max" in ds.features_innate for i in (1, 2, 3))
                nfl_out = sum(f"fl{i}_max" in feats for i in (1, 2, 3))
                feats_partial_fl = 0 < nfl_out < nfl_src
                if feats != list(ds.features_innate):
                    ctx.probe("export_feature_subset")
                    if op["basins"]:
                        ctx.probe("basin_export_without_some_features")
                override = False
                if op.get("onto") and self.files:
                    # the target path already holds another product (an earlier export): override=True replaces it
                    other = self.files[op["onto"] % len(self.files)]
                    shutil.copyfile(self.dir / other["name"], self.dir / name)
                    override = True
                    ctx.probe("export_overrides_existing_file")
                ds.export.hdf5(self.dir / name, features=feats, filtered=op["filtered"], basins=op["basins"],
                               logs=op["logs"], tables=op["tables"], override=override)
        except Exception as e:
            return self.skipped("export", e)
        ctx.state_ops += 1
        ctx.state("export", src["producer"], op["filtered"], op["basins"])
        ctx.log("p", f"export {src['name']} -> {name} filtered={op['filtered']} basins={op['basins']}", seeds.short_hash(mask))
        viol = self.closure(name, "export")
        if viol and feats_partial_fl:
            # reported above; a file whose channel metadata contradict its features is no "dataset with complete metadata"
            # for the producers that follow
            return
        self.add(name, "export")

    def do_tool(self, op):
        from dclab import cli
        ctx = self.ctx
        src = self.pick(op["src"])
        if src is None:
            return
        tool, opts = op["tool"], dict(op.get("opts") or {})
        name = self.newname(tool[:4])
        try:
            with quiet():
                getattr(cli, tool)(path_in=self.dir / src["name"], path_out=self.dir / name, **opts)
        except Exception as e:
            return self.skipped(tool, e)
        ctx.state_ops += 1
        ctx.state("tool", tool, src["producer"], sorted(k for k, v in opts.items() if v))
        ctx.log("p", f"{tool} {sorted(opts.items())} {src['name']} -> {name}")
        v_out = self.closure(name, tool)
        if tool in ("compress", "repack") and v_out is not None:
            v_in = self.check(src["name"], "product")
            ctx.checked()
            if v_in is not None:
                ctx.probe("copy_same_valid")
                if v_in != v_out:
                    ctx.violation("C13.copy.same", f"{src['name']} reports {v_in[:5]} but its {tool} copy reports {v_out[:5]}",
                                  sig={"tool": tool, "what": "valid_product"}, fatal=False)
        self.add(name, tool)

    def do_split(self, op):
        from dclab import cli
        ctx = self.ctx
        src = self.pick(op["src"])
        if src is None:
            return
        import h5py
        with h5py.File(self.dir / src["name"], "r") as h:
            n = int(h.attrs.get("experiment:event count", 0))
        self.counter += 1
        sub = f"s{self.counter:02d}"
        (self.dir / sub).mkdir()
        per = max(1, -(-max(n, 1) // op["parts"]))
        try:
            with quiet():
                outs = cli.split(path_in=self.dir / src["name"], path_out=self.dir / sub, split_events=per, ret_out_paths=True)
        except Exception as e:
            return self.skipped("split", e)
        ctx.state_ops += 1
        ctx.state("split", src["producer"], op["parts"])
        names = sorted(f"{sub}/{p.name}" for p in outs)
        ctx.log("p", f"split {src['name']} -> {names}")
        for nm in names:
            self.closure(nm, "split")
            self.add(nm, "split")

    def do_join(self, op):
        from dclab import cli
        ctx = self.ctx
        if len(self.files) < 2:
            return
        a = self.pick(op["srcs"][0])
        # prefer a partner with the same stored features (join of differing feature sets is C09's business)
        same = [f for f in self.files if f["name"] != a["name"] and f["facts"]["feats"] == a["facts"]["feats"]]
        others = [f for f in self.files if f["name"] != a["name"]]
        b = same[op["srcs"][1] % len(same)] if same else others[op["srcs"][1] % len(others)]
        # Joining measurements with different fluorescence channel sets is not joining parts of one measurement run
        # (the tool keeps the first input's channel metadata but only the common features): not a closure case.
        fla = sorted(f for f in a["facts"]["feats"] if f.startswith("fl") and f.endswith("_max"))
        flb = sorted(f for f in b["facts"]["feats"] if f.startswith("fl") and f.endswith("_max"))
        if fla != flb:
            ctx.count("join_skipped_different_fl_channels")
            return
        name = self.newname("j")
        try:
            with quiet():
                cli.join(paths_in=[self.dir / a["name"], self.dir / b["name"]], path_out=self.dir / name)
        except Exception as e:
            return self.skipped("join", e)
        ctx.state_ops += 1
        ctx.state("join", a["producer"], b["producer"])
        ctx.log("p", f"join {a['name']} {b['name']} -> {name}")
        self.closure(name, "join")
        self.add(name, "join")

    # ---------------- corruption ----------------
    def do_corrupt(self, op):
        import h5py
        from dclab import cli
        ctx = self.ctx
        src = self.pick(op["src"])
        if src is None:
            return
        if not src["facts"]["feats"]:
            # (e.g. the join of measurements without a common feature: no data that metadata could contradict; without
            #  an event count the checker cannot even determine a size and raises - observed, DESIGN section 15)
            ctx.count("corruption_source_without_features")
            return
        name = self.newname("x")
        shutil.copyfile(self.dir / src["name"], self.dir / name)
        if seeds.rng(op["dseed"], "check-before").random() < 0.4:
            # the same path is checked while still intact, then modified in place and checked again
            self.check(name, "before_corruption")
            ctx.probe("checked_before_corrupted_in_place")
        applied = []
        state = {"touched": set(), "kinds": list(op["kinds"]), "src": src["name"]}
        with h5py.File(self.dir / name, "a") as h:
            for i, kind in enumerate(op["kinds"]):
                r = seeds.rng(op["dseed"], f"corruption-{i}")
                exp = getattr(self, "c_" + kind)(h, r, state)
                if exp is None:
                    ctx.count("corruption_inapplicable_" + kind)
                    continue
                applied.append((kind, exp))
                ctx.probe("k_" + kind)
        if not applied:
            (self.dir / name).unlink()
            return
        ctx.state_ops += 1
        kinds = [k for k, _ in applied]
        ctx.state("corrupt", src["producer"], "+".join(sorted(kinds)))
        ctx.probe("corrupt_pair" if len(applied) > 1 else "corrupt_single")
        ctx.log("c", f"corrupt {src['name']} -> {name}: " + "; ".join(e["descr"] for _, e in applied))
        raise_what = ([e["raise_what"] for _, e in applied if "raise_what" in e] + ["corrupt"])[0]
        viol = self.check(name, raise_what)
        if viol is None:
            return
        for kind, e in applied:
            for cue in e["cues"]:
                ctx.checked()
                if not any(cue in msg for msg in viol):
                    ctx.violation("C13.detect." + kind, f"{name}: injected [{e['descr']}] (all injected: "
                                  f"{[x['descr'] for _, x in applied]}) but no violation contains {cue!r}; reported: {viol[:8]}",
                                  sig={"kind": kind, "what": e.get("what", "plain")}, fatal=False)
        ctx.log("o", f"detect {name}", len(viol))
        if set(kinds) <= META_ONLY:
            tool = op.get("tool", "compress")
            cname = self.newname("xc")
            try:
                with quiet():
                    getattr(cli, tool)(path_in=self.dir / name, path_out=self.dir / cname)
            except Exception as ex:
                return self.skipped(tool + "_of_corrupt", ex)
            v2 = self.check(cname, "copy_of_corrupt")
            ctx.checked()
            if v2 is not None:
                ctx.probe("corrupt_copy_compared")
                if v2 != viol:
                    gone = [m for m in viol if m not in v2]
                    new = [m for m in v2 if m not in viol]
                    ctx.violation("C13.copy.same", f"{name} [{'; '.join(x['descr'] for _, x in applied)}] reports {viol[:6]} but its "
                                  f"{tool} copy does not report {gone[:4]} and newly reports {new[:4]}",
                                  sig={"tool": tool, "what": "metadata_corruption", "gone": bool(gone), "new": bool(new)}, fatal=False)

    # each c_<kind>(h, r, state) applies the inconsistency and returns {"descr", "cues": [substrings expected in a violation]}
    # or None when the file offers nothing to corrupt that way.

    @staticmethod
    def _n(h):
        return int(h.attrs["experiment:event count"]) if "experiment:event count" in h.attrs else None

    @staticmethod
    def _relength(parent, key, newlen):
        d = parent[key]
        if d.maxshape[0] is None and d.chunks is not None:
            d.resize(newlen, axis=0)
            return
        data = d[()]
        attrs = dict(d.attrs)
        out = np.zeros((newlen,) + data.shape[1:], dtype=data.dtype)
        out[:min(newlen, len(data))] = data[:newlen]
        del parent[key]
        nd = parent.create_dataset(key, data=out)
        for k, v in attrs.items():
            nd.attrs[k] = v

    def c_feat_len(self, h, r, st):
        import h5py
        import dclab.definitions as dfn
        n = self._n(h)
        ev = h.get("events")
        if n is None or ev is None:
            return None
        cands = []
        for f in sorted(ev):
            if not dfn.feature_exists(f) or not isinstance(ev.get(f, getlink=True), h5py.HardLink):
                continue   # (an external link injected before is not followed here)
            o = ev[f]
            if isinstance(o, h5py.Dataset) and o.shape[0] == n:
                if f == "index" and "index" in st["kinds"]:
                    continue
                cands.append((f, ev, f))
            elif f == "trace":
                for k in sorted(o):
                    if o[k].shape[0] == n:
                        cands.append((f"trace/{k}", o, k))
        if not cands:
            return None
        label, parent, key = r.choice(cands)
        newlen = r.choice([x for x in (n - 1, n + 1, n + 3, 1) if x >= 1 and x != n])
        self._relength(parent, key, newlen)
        st["touched"].add("experiment:event count")
        # EXPECT check_feature_size: "Features: wrong event count: '<feat>' (<len> of <event count>)"
        e = {"descr": f"length of {label} {n}->{newlen}", "cues": [f"wrong event count: '{label}' ({newlen} of {n})"]}
        if label == "index":
            e["what"] = "index"
            e["raise_what"] = "index_length"
        return e

    def c_contour_len(self, h, r, st):
        n = self._n(h)
        ev = h.get("events")
        if n is None or ev is None or "contour" not in ev or len(ev["contour"]) != n or n < 2:
            return None
        g = ev["contour"]
        if r.random() < 0.5:
            del g[str(n - 1)]
            now = n - 1
        else:
            g.create_dataset(str(n), data=np.array([[1, 1], [1, 2], [2, 2], [2, 1]], dtype=np.int32))
            now = n + 1
        st["touched"].add("experiment:event count")
        # EXPECT check_feature_size: "Features: wrong event count: 'contour' (...)"
        return {"descr": f"number of contours {n}->{now}", "cues": ["wrong event count: 'contour'"], "what": "contour"}

    def c_roi(self, h, r, st):
        ev = h.get("events", {})
        feats = [f for f in ("image", "image_bg", "mask") if f in ev and ev[f].ndim == 3 and ev[f].shape[0] > 0]
        masked = [k for k in ("imaging:roi size x", "imaging:roi size y") if k not in h.attrs]
        if not feats or len(masked) == 2:
            return None
        ax = r.choice([a for a in "xy" if f"imaging:roi size {a}" in h.attrs])
        key = f"imaging:roi size {ax}"
        true = ev[feats[0]].shape[2 if ax == "x" else 1]
        new = true + r.choice([1, 2, 5, -1])
        h.attrs[key] = int(new)
        st["touched"].add(key)
        if not masked:
            st["touched"].update(["imaging:roi size x", "imaging:roi size y"])
        same = [f for f in feats if ev[f].shape[2 if ax == "x" else 1] == true]
        # EXPECT check_metadata_bad: "Metadata: Mismatch [imaging] 'roi size x' and feature image (13 vs 12)"
        e = {"descr": f"[imaging] roi size {ax} {true}->{new}",
             "cues": [f"Mismatch [imaging] 'roi size {ax}' and feature {f} ({new} vs {true})" for f in same]}
        if masked:
            e["what"] = "other_roi_key_missing"
        return e

    def c_unknown_feat(self, h, r, st):
        n = self._n(h) or 3
        ev = h.require_group("events")
        cand = [u for u in ("unknwn_x", "peter_9", "my_feature") if u not in ev]
        if not cand:
            return None
        u = r.choice(cand)
        ev.create_dataset(u, data=np.linspace(0, 1, n))
        # EXPECT check_features_unknown_hdf5: "Features: Unknown key '<name>'"
        return {"descr": f"unknown feature {u}", "cues": [f"Unknown key '{u}'"]}

    def c_missing_key(self, h, r, st):
        ev = h.get("events", {})
        keys = [(s, k) for s, ks in MANDATORY.items() for k in ks]
        if any(f"fl{i}_max" in ev for i in (1, 2, 3)):
            keys += [(s, k) for s, ks in MANDATORY_FL.items() for k in ks]
        keys = [(s, k) for s, k in keys if f"{s}:{k}" in h.attrs and f"{s}:{k}" not in st["touched"]]
        if not keys:
            return None
        s, k = r.choice(keys)
        # a whole section must not vanish (that is reported as a missing section, another cue)
        if sum(1 for a in h.attrs if a.startswith(s + ":")) < 2:
            return None
        del h.attrs[f"{s}:{k}"]
        st["touched"].add(f"{s}:{k}")
        # EXPECT check_metadata_missing: "Metadata: Missing key [<sec>] '<key>'"
        return {"descr": f"deleted [{s}] {k}", "cues": [f"Missing key [{s}] '{k}'"]}

    def c_index(self, h, r, st):
        n = self._n(h)
        ev = h.get("events")
        if n is None or ev is None:
            return None
        if "index" in ev and ev["index"].shape[0] != n:
            return None
        good = np.arange(1, n + 1)
        choices = [good - 1, good + 1, np.ones(n, dtype=np.int64)]
        if n >= 2:
            sw = good.copy()
            i = r.randrange(n - 1)
            sw[i], sw[i + 1] = sw[i + 1], sw[i]
            choices += [sw, good[::-1].copy()]
        bad = r.choice([c for c in choices if not np.array_equal(c, good)])
        if "index" in ev:
            ev["index"][:] = bad.astype(ev["index"].dtype)
            how = "overwritten"
        else:
            ev.create_dataset("index", data=bad.astype(np.uint32))
            how = "added"
        # EXPECT check_feat_index: "The index feature is not enumerated correctly"
        return {"descr": f"index {how} with {bad[:5].tolist()}", "cues": ["index feature is not enumerated correctly"]}

    def _count(self, h, r, st, key, cue, need_fl=True):
        ev = h.get("events", {})
        if need_fl and not any(f"fl{i}_max" in ev for i in (1, 2, 3)):
            return None
        if key not in h.attrs or key in st["touched"]:
            return None
        old = int(h.attrs[key])
        new = r.choice([x for x in (old + 1, old - 1, old + 2) if x >= 0 and x != old])
        h.attrs[key] = new
        st["touched"].add(key)
        return {"descr": f"{key} {old}->{new}", "cues": [cue]}

    def c_channel_count(self, h, r, st):
        # EXPECT check_fl_num_channels: "Metadata: fluorescence channel count inconsistent"
        return self._count(h, r, st, "fluorescence:channel count", "fluorescence channel count inconsistent")

    def c_laser_count(self, h, r, st):
        # EXPECT check_fl_num_lasers: "Metadata: fluorescence laser count inconsistent"
        ev = h.get("events", {})
        on = [i for i in (1, 2, 3) if f"fluorescence:laser {i} lambda" in h.attrs and f"fluorescence:laser {i} power" in h.attrs
              and float(h.attrs[f"fluorescence:laser {i} power"]) != 0]
        if (r.random() < 0.4 and on and any(f"fl{i}_max" in ev for i in (1, 2, 3)) and "fluorescence:laser count" in h.attrs
                and "fluorescence:laser count" not in st["touched"]):
            # a counted laser is switched off while the count stays
            i = r.choice(on)
            h.attrs[f"fluorescence:laser {i} power"] = 0.0
            st["touched"].add("fluorescence:laser count")
            return {"descr": f"fluorescence:laser {i} power -> 0 (laser count unchanged)", "cues": ["fluorescence laser count inconsistent"]}
        return self._count(h, r, st, "fluorescence:laser count", "fluorescence laser count inconsistent")

    def c_samples(self, h, r, st):
        ev = h.get("events", {})
        key = "fluorescence:samples per event"
        if "trace" not in ev or len(ev["trace"]) == 0 or key not in h.attrs or key in st["touched"]:
            return None
        tr = ev["trace"]
        if any(tr[k].shape[0] == 0 for k in tr):
            return None
        old = int(h.attrs[key])
        new = r.choice([old + 1, max(1, old - 1), old + 5])
        h.attrs[key] = new
        st["touched"].add(key)
        # EXPECT check_fl_samples_per_event: "Metadata: wrong number of samples per event: <trace> (expected <new>, got <size>)"
        e = {"descr": f"samples per event {old}->{new}",
             "cues": [f"wrong number of samples per event: {k} (expected {new}, got {tr[k].shape[1]})" for k in sorted(tr)
                      if tr[k].shape[1] != new]}
        if not any(f"fl{i}_max" in ev for i in (1, 2, 3)):
            e["what"] = "trace_without_flmax"
        return e

    def c_extlink(self, h, r, st):
        import h5py
        with h5py.File(self.dir / st["src"], "r") as hs:
            sev = hs.get("events", {})
            scal = [f for f in sorted(sev) if isinstance(sev[f], h5py.Dataset) and sev[f].ndim == 1]
            logs = sorted(hs.get("logs", {}))
        where = r.choice(["root", "events", "logs"])
        if where == "logs" and logs:
            h.require_group("logs")["extlog"] = h5py.ExternalLink(st["src"], "/logs/" + logs[0])
            loc = "/logs/extlog"
        elif where == "events" and scal:
            free = [u for u in ("userdef7", "userdef8", "userdef9") if u not in h.require_group("events")]
            if not free:
                return None
            h["events"][free[0]] = h5py.ExternalLink(st["src"], "/events/" + scal[0])
            loc = "/events/" + free[0]
        elif scal:
            h["extdata"] = h5py.ExternalLink(st["src"], "/events/" + scal[0])
            loc = "/extdata"
        else:
            return None
        # EXPECT check_external_links: "The HDF5 file contains at least one external link: '<path>'"
        return {"descr": f"external link at {loc}", "cues": ["external link"]}

    def c_nonpositive(self, h, r, st):
        cand = [(s, k) for s, k in POSITIVE if f"{s}:{k}" in h.attrs and f"{s}:{k}" not in st["touched"]]
        if not cand:
            return None
        s, k = r.choice(cand)
        val = r.choice([0.0, -1.0, -0.04])
        h.attrs[f"{s}:{k}"] = val
        st["touched"].add(f"{s}:{k}")
        # EXPECT check_metadata_bad_greater_zero: "Metadata: Invalid value for [<sec>] '<key>': '<value>'!"
        return {"descr": f"[{s}] {k} = {val}", "cues": [f"Invalid value for [{s}] '{k}'"]}


def run(trace, ctx):
    seams.set_knob_chunk_bytes(trace["knobs"]["chunk_bytes"])
    w = World(trace, ctx)
    with warnings.catch_warnings():
        warnings.simplefilter("ignore")
        while True:
            op = ctx.next_op(w.gen_op, max_ops=trace.get("max_ops", 7))
            if op is None:
                break
            w.execute(op)
            ctx.clock.advance(ctx.rng("clock").choice([0, 0.5, 2, 61, 3600]))
    ctx.info["sample"] = {"knobs": trace["knobs"], "ops": (trace.get("ops") or [])[:6], "files": len(w.files)}


def simplify(trace):
    """candidate simplifications: single corruptions, smaller files"""
    ops = trace.get("ops") or []
    for i, op in enumerate(ops):
        cands = []
        if op.get("k") == "corrupt" and len(op.get("kinds", [])) > 1:
            cands += [dict(op, kinds=[k]) for k in op["kinds"]]
        if op.get("k") == "write" and op.get("n", 3) > 3:
            cands.append(dict(op, n=3))
        for c in cands:
            t = dict(trace)
            t["ops"] = ops[:i] + [c] + ops[i + 1:]
            yield t
