"""C06 — computed (ancillary) features always reflect the current data and settings.

World B, single actor: seeded histories of configuration edits, temporary-feature
assignments, reads and availability tests on a long-lived dataset; every read is
compared with a freshly constructed dataset holding the same data and the same
current configuration (bit-exact; same code, so the comparison isolates the cache)."""
import pathlib
import warnings

import numpy as np

from dst import gen, seeds

NAME = "C06"
PROPERTY = "C06"
LEVEL = "exploration"
RULE = ("one evaluation = one seeded history (<= 40 operations) on a long-lived dataset (dict-backed, file-backed or hierarchy "
        "child; <= 24 events) of {set/change/delete a [calculation]/[imaging]/[setup] key (emodulus scenarios A/B/C switched "
        "atomically so that key sets stay non-contradictory), set/replace a temporary feature, read an on-demand feature, "
        "test availability, refresh the child}; at every read the value must equal what a freshly constructed dataset with the "
        "same data and current configuration returns, availability must agree with the fresh dataset and with whether reading "
        "succeeds; emodulus is in addition compared with a direct call of features.emodulus.get_emodulus with inputs chosen by "
        "an independent precedence table. non-trivial = >=1 edit and >=1 read; distinct = distinct event-log digests")
STATE_MEASURE = "distinct (feature, present emodulus keys, temp feature present, cached before?, last edited key) tuples"
PROBES = ["read_repeated_after_transient_read_fault", "read_again_after_refused_computation", "temp_feature_earlier_values_assigned_again", "read_cached_then_config_changed", "key_deleted_after_read", "emodulus_case_A", "emodulus_case_B", "emodulus_case_C",
          "viscosity_changed_while_temperature_present", "temp_feature_replaced", "plugin_read", "unavailable_read_raises",
          "child_after_refresh", "file_backed", "scenario_switch", "ml_score_replaced", "temperature_zero", "grandchild_backing",
          "temp_feature_tail_changed", "temp_set_through_child", "child_read_without_explicit_refresh",
          "temp_input_the_recipe_refuses", "computation_refused_input", "setting_changed_back",
          "other_measurement_written_to_the_same_path"]
COMPONENTS = {"real": ["dclab RTDCBase.__getitem__/__contains__, AncillaryFeature (hash, availability, priorities)",
                       "af_emodulus/af_basic/af_fl_max_ctc/af_image_contour/af_ml_class, PlugInFeature, temporary features",
                       "RTDC_Dict / RTDC_HDF5 / RTDC_Hierarchy"],
              "stub": ["wall clock", "identity sources"]}
ASSUMPTIONS = [
    "two fluorescence channels (fl1_max, fl2_max): with three channels and an incomplete crosstalk matrix dclab raises a deliberate MissingCrosstalkMatrixElementsError for a listed feature",
    "configuration values are drawn from their valid domains; key sets that are individually valid but mutually contradictory "
    "(known medium together with an explicit viscosity) are not generated: compute_emodulus raises a deliberate ValueError for them",
    "reads on hierarchy children are judged after a refresh only",
    "LUTs are the two 2-D built-in tables",
]

PLUGIN = pathlib.Path(__file__).resolve().parent.parent / "spec" / "plugin_c06.py"
READ_FEATS = ["emodulus", "area_um", "time", "deform", "area_ratio", "index", "volume", "bright_avg", "bright_sd",
              "fl1_max_ctc", "fl2_max_ctc", "ml_class", "c06_a", "c06_b", "contour", "inert_ratio_cvx", "tilt"]


def plan(tier):
    if tier == "quick":
        return {"runs": 560, "budget_s": 45, "run_timeout_s": 180, "det_pairs": 3}
    return {"runs": 100000, "budget_s": 780, "run_timeout_s": 240, "det_pairs": 3}


def make_trace(seed, tier):
    r = seeds.rng(seed, "plan")
    big = r.random() < 0.08
    return {"knobs": {"n": 9000 + r.randrange(0, 3000) if big else r.choice([2, 7, 24]),
                      "backing": r.choice(["dict", "dict", "file", "child", "grandchild"]) if not big else "dict",
                      "big": big,
                      "with_temp": r.random() < 0.5, "with_images": (r.random() < 0.5) and not big,
                      "ml_innate": r.random() < 0.5},
            "max_ops": r.choice([8, 20, 40]), "ops": None}


def make_data(seed, n, with_temp, with_images, ml_innate=True):
    rs = seeds.np_rng(seed, "data")
    d = {
        "area_cvx": rs.uniform(300, 2500, size=n),       # px^2 -> area_um 35..290 at 0.34
        "area_msd": rs.uniform(300, 2500, size=n),
        "circ": rs.uniform(0.75, 0.995, size=n),
        "frame": np.cumsum(rs.integers(1, 20, size=n)).astype(np.float64),
        "pos_x": rs.uniform(20, 60, size=n),
        "pos_y": rs.uniform(10, 20, size=n),
        "fl1_max": rs.uniform(10, 1000, size=n),
        "fl2_max": rs.uniform(10, 1000, size=n),
    }
    if ml_innate:
        d["ml_score_abc"] = rs.uniform(0, 1, size=n)
        d["ml_score_xyz"] = rs.uniform(0, 1, size=n)
    if with_temp:
        d["temp"] = rs.uniform(21, 28, size=n)
    if with_images:
        d["mask"] = np.array([gen.blob_mask(rs, 14, 20) for _ in range(n)])
        d["image"] = rs.integers(0, 255, size=(n, 14, 20)).astype(np.uint8)
    return d


class World:
    def __init__(self, trace, ctx):
        import dclab
        self.ctx = ctx
        k = trace["knobs"]
        self.k = k
        self.n = k["n"]
        self.data = make_data(ctx.seed, self.n, k["with_temp"], k["with_images"], k.get("ml_innate", True))
        dclab.register_temporary_feature("tmp_c06")
        dclab.load_plugin_feature(PLUGIN)
        self.path = None
        if k["backing"] in ("file",):
            from dclab.rtdc_dataset.writer import RTDCWriter
            self.path = ctx.scratch / "c06.rtdc"
            with RTDCWriter(self.path, mode="reset") as hw:
                hw.store_metadata({"setup": {"software version": "ShapeIn 2.2.2.4"}, "experiment": {"sample": "s", "run index": 1}})
                for f, v in self.data.items():
                    hw.store_feature(f, v)
            ctx.probe("file_backed")
            from dst import faultfs
            self.rseam = faultfs.ReadFaultSeam().install()
        self.temps = {}
        self.base = self.build_base()
        if k.get("big"):
            # (so that the computed inputs of the plugin feature exist from the start)
            self.base.config["imaging"]["pixel size"] = 0.34
            self.base.config["imaging"]["frame rate"] = 2000.0
        self.child = None
        self.mid = None
        if k["backing"] == "child":
            self.child = dclab.new_dataset(self.base)
        elif k["backing"] == "grandchild":
            self.mid = dclab.new_dataset(self.base)
            self.child = dclab.new_dataset(self.mid)
            ctx.probe("grandchild_backing")
        self.read_before = set()
        self.need_refresh = False
        self.skip_refresh_once = False
        self.last_edit_fresh = False
        self.last_edit = "none"
        self.dirty_since_read = {}

    def build_base(self):
        import dclab
        if self.path is not None:
            return dclab.new_dataset(self.path)
        return dclab.new_dataset({f: (v.copy() if isinstance(v, np.ndarray) else v) for f, v in self.data.items()})

    @property
    def ds(self):
        return self.child if self.child is not None else self.base

    def fresh(self):
        """A freshly constructed dataset with the same data, the same current configuration and temporary features."""
        import dclab
        fr = self.build_base()
        for sec in ("calculation", "imaging", "setup"):
            cur = self.base.config[sec] if sec in self.base.config else {}
            for key in list(fr.config[sec].keys()) if sec in fr.config else []:
                if key not in cur:
                    fr.config[sec].pop(key)
            for key in cur.keys():
                fr.config[sec][key] = cur[key]
        for name, arr in self.temps.items():
            dclab.set_temporary_feature(fr, name, arr)
        if self.child is not None:
            ch = dclab.new_dataset(fr)
            if self.mid is not None:
                ch = dclab.new_dataset(ch)
            return ch, fr
        return fr, fr

    # ---------------- generation ----------------
    def gen_op(self, r):
        # read-edit-read patterns are what exposes a stale cache: after an edit, usually read a feature
        # that depends on what was edited
        plan_ = getattr(self, "plan_ops", [])
        if plan_:
            return plan_.pop(0)
        pend = getattr(self, "pending_reads", [])
        if pend:
            return {"k": "read", "feat": pend.pop(0)}
        if self.last_edit_fresh and r.random() < 0.6:
            self.last_edit_fresh = False
            rel = self.related(self.last_edit)
            if r.random() < 0.35:
                # all the features that share these inputs, one after the other
                self.pending_reads = list(dict.fromkeys(rel))[1:]
                return {"k": "read", "feat": list(dict.fromkeys(rel))[0]}
            return {"k": "read", "feat": r.choice(rel)}
        if getattr(self, "rseam", None) is not None and r.random() < 0.25:
            # a read of the backing file fails once while a feature is read (computed); the caller reads again
            return {"k": "faultread", "feat": r.choice(READ_FEATS + ["emodulus", "area_um", "c06_a"]), "at": r.choice([0, 0, 0, 1, 1, 2, 3, 5, 8]),
                    "kind": r.choice(["err", "err", "intr"])}
        th = getattr(self, "temp_hist", {})
        tback = sorted(n_ for n_, v_ in th.items() if len(v_) >= 2 and v_[-1][0] != v_[-2][0])
        if tback and self.child is not None and r.random() < 0.5:
            # exactly the values that a temporary feature had before its last replacement are assigned again, through another level
            name = r.choice(tback)
            ds_, via_ = th[name][-2]
            return {"k": "temp", "dseed": ds_, "name": name, "exact": True, "bad": False,
                    "via": r.choice([v for v in ("base", "child", "mid") if v != th[name][-1][1]])}
        hist = getattr(self, "set_hist", {})
        back = sorted(k_ for k_, v_ in hist.items() if len(v_) >= 2 and v_[-1] != v_[-2])
        if back and r.random() < 0.08:
            # a setting is changed back to the value it had before
            sec, key = r.choice(back)
            return {"k": "set", "sec": sec, "key": key, "val": hist[(sec, key)][-2]}
        if self.k.get("big") and r.random() < 0.6:
            # large in-memory arrays: replace the temporary input (often only in its tail) between reads of what is computed from it
            if "tmp_c06" in self.temps and r.random() < 0.55:
                return {"k": "read", "feat": r.choice(["c06_b", "c06_b", "c06_a"])}
            return {"k": "temp", "dseed": r.randrange(1 << 30), "name": "tmp_c06", "tail": r.random() < 0.7}
        calc = self.base.config["calculation"]
        if str(calc.get("emodulus medium", "")).lower() == "other" and r.random() < 0.25:
            # scenario B: exercise its own keys (and the ignored temperature)
            key, vals = r.choice([("emodulus viscosity", [0.8, 1.2, 3.3]), ("emodulus temperature", [20.0, 24.0])])
            return {"k": "set", "sec": "calculation", "key": key, "val": r.choice(vals)}
        x = r.random()
        if x < 0.16:
            sc = r.choice(["C", "C", "A", "B", "none"])
            medium = r.choice(["CellCarrier", "CellCarrierB", "water", "0.49% MC-PBS"])
            # 0 degC is inside the valid range of the water model only (MC-PBS models divide by the temperature)
            temps = [20.0, 23.0, 25.5] + ([0.0, 0.0] if medium == "water" else [])
            op = {"k": "scenario", "sc": sc, "lut": r.choice(["LE-2D-FEM-19", "HE-2D-FEM-22"]),
                  "medium": medium, "temperature": r.choice(temps), "viscosity": r.choice([0.5, 1.0, 5.7]),
                  "model": r.choice([None, "herold-2017", "buyukurganci-2022", "buyukurganci-2022"])}
            return op
        if x < 0.36:
            sec, key, vals = r.choice([
                ("calculation", "emodulus temperature", [20.0, 22.5, 24.0, 27.0, 0.0]),
                ("calculation", "emodulus viscosity", [0.8, 1.2, 3.3]),
                ("calculation", "emodulus lut", ["LE-2D-FEM-19", "HE-2D-FEM-22"]),
                ("calculation", "emodulus viscosity model", ["herold-2017", "buyukurganci-2022"]),
                ("calculation", "crosstalk fl21", [0.0, 0.05, 0.2]),
                ("calculation", "crosstalk fl12", [0.0, 0.1]),
                ("calculation", "crosstalk fl31", [0.0, 0.03]),
                ("calculation", "crosstalk fl13", [0.0, 0.07]),
                ("calculation", "crosstalk fl23", [0.0, 0.02]),
                ("calculation", "crosstalk fl32", [0.0, 0.04]),
                ("imaging", "pixel size", [0.2, 0.34, 0.5]),
                ("imaging", "frame rate", [1000.0, 2000.0, 4000.0]),
                ("setup", "channel width", [20.0, 30.0]),
                ("setup", "flow rate", [0.04, 0.06, 0.16]),
                ("setup", "chip region", ["channel", "reservoir", "channel"]),
            ])
            return {"k": "set", "sec": sec, "key": key, "val": r.choice(vals)}
        if x < 0.44:
            sec, key = r.choice([("calculation", "emodulus temperature"), ("calculation", "crosstalk fl21"),
                                 ("calculation", "crosstalk fl12"), ("imaging", "pixel size"), ("imaging", "frame rate"),
                                 ("setup", "flow rate"), ("setup", "chip region"), ("calculation", "emodulus viscosity model"),
                                 ("calculation", "emodulus lut")])
            return {"k": "del", "sec": sec, "key": key}
        if x < 0.52:
            names = ["tmp_c06", "tmp_c06"] + ([] if self.k.get("ml_innate", True) else ["ml_score_abc", "ml_score_xyz", "ml_score_abc"])
            if self.child is not None and r.random() < 0.3:
                # values A through one handle of the hierarchy, read, values B through another handle, values A again through the
                # first one (no refresh by the caller in between), read
                nm, da, db = r.choice(names), r.randrange(1 << 30), r.randrange(1 << 30)
                h1, h2 = r.choice([("child", "base"), ("child", "base"), ("base", "child"), ("child", "mid"), ("mid", "child")])
                rd_ = r.choice([nm, nm, "ml_class" if nm.startswith("ml_score") else "c06_b"])
                self.plan_ops = [{"k": "read", "feat": rd_},
                                 {"k": "temp", "dseed": db, "name": nm, "via": h2, "exact": True, "bad": False},
                                 {"k": "temp", "dseed": da, "name": nm, "via": h1, "exact": True, "bad": False},
                                 {"k": "read", "feat": rd_}]
                return {"k": "temp", "dseed": da, "name": nm, "via": h1, "exact": True, "bad": False}
            return {"k": "temp", "dseed": r.randrange(1 << 30), "name": r.choice(names), "via": r.choice(["base", "base", "child", "child", "mid"]),
                    "bad": r.random() < 0.15}
        if x < 0.60 and self.child is not None:
            return {"k": "refresh"}
        if x < 0.56 and self.path is not None and self.child is None:
            # another measurement is written to the same path and opened with the same settings
            return {"k": "rewrite", "dseed": r.randrange(1 << 30)}
        if x < 0.70:
            return {"k": "avail", "feat": r.choice(READ_FEATS)}
        if self.k.get("big"):
            return {"k": "read", "feat": r.choice(["c06_b", "c06_b", "c06_a", "area_um", "time", "deform", "ml_class"])}
        return {"k": "read", "feat": r.choice(READ_FEATS + ["emodulus", "emodulus", "area_um"])}

    # ---------------- execution ----------------
    @staticmethod
    def related(what):
        if "crosstalk" in what:
            return ["fl1_max_ctc", "fl2_max_ctc"]
        if "frame rate" in what:
            return ["time", "c06_a", "c06_a"]
        if "pixel size" in what:
            return ["area_um", "emodulus", "volume", "c06_a", "c06_a"]
        if what.startswith("temp ml_score"):
            return ["ml_class", what.split(" ", 1)[1]]
        if what.startswith("temp"):
            return ["c06_b", "c06_a", "tmp_c06"]
        return ["emodulus"]

    def mark_edit(self, what):
        # (a temporary feature set through the youngest child updates that child itself)
        if not (what.startswith("temp") and getattr(self, "skip_refresh_once", False)):
            self.need_refresh = True
            self.skip_refresh_once = False
        self.last_edit_fresh = True
        self.last_edit = what
        for f in list(self.read_before):
            self.dirty_since_read[f] = what
        self.ctx.state_ops += 1

    def execute(self, op):
        ctx = self.ctx
        cfg = self.base.config
        k = op["k"]
        if k == "scenario":
            calc = cfg["calculation"]
            for key in ("emodulus medium", "emodulus temperature", "emodulus viscosity", "emodulus lut", "emodulus viscosity model"):
                if key in calc:
                    calc.pop(key)
            sc = op["sc"]
            if sc != "none":
                calc["emodulus lut"] = op["lut"]
                if op["model"]:
                    calc["emodulus viscosity model"] = op["model"]
                if sc == "B":
                    calc["emodulus medium"] = "other"
                    calc["emodulus viscosity"] = op["viscosity"]
                else:
                    calc["emodulus medium"] = op["medium"]
                    if sc == "C":
                        calc["emodulus temperature"] = op["temperature"]
            for sec, key, val in (("imaging", "pixel size", 0.34), ("setup", "channel width", 20.0), ("setup", "flow rate", 0.04),
                                  ("setup", "chip region", "channel")):
                if key not in cfg[sec]:
                    cfg[sec][key] = val
            ctx.probe("scenario_switch")
            ctx.log("a", f"scenario {sc}", seeds.short_hash(sorted((kk, str(vv)) for kk, vv in calc.items())))
            self.mark_edit("scenario")
            return
        if k == "set":
            calc = cfg["calculation"]
            medium = str(calc.get("emodulus medium", "")).lower()
            if op["key"] == "emodulus temperature" and op["val"] == 0 and medium != "water":
                return
            # keep key sets non-contradictory (see ASSUMPTIONS)
            if op["key"] == "emodulus viscosity" and medium != "other":
                return
            if op["key"] == "emodulus viscosity" and "emodulus temperature" in calc:
                ctx.probe("viscosity_changed_while_temperature_present")
            cfg[op["sec"]][op["key"]] = op["val"]
            if not hasattr(self, "set_hist"):
                self.set_hist = {}
            h_ = self.set_hist.setdefault((op["sec"], op["key"]), [])
            if len(h_) >= 2 and h_[-2] == op["val"] and h_[-1] != op["val"]:
                ctx.probe("setting_changed_back")
            h_.append(op["val"])
            ctx.log("a", f"set {op['sec']}:{op['key']}", str(op["val"]))
            if self.read_before:
                ctx.probe("read_cached_then_config_changed")
            self.mark_edit(op["key"])
            return
        if k == "del":
            if op["key"] in cfg[op["sec"]]:
                cfg[op["sec"]].pop(op["key"])
                if self.read_before:
                    ctx.probe("key_deleted_after_read")
                ctx.log("a", f"del {op['sec']}:{op['key']}")
                self.mark_edit("del " + op["key"])
            return
        if k == "temp":
            import dclab
            name = op.get("name", "tmp_c06")
            if name != "tmp_c06" and self.k.get("ml_innate", True):
                return
            lo, hi = (1, 2) if name == "tmp_c06" else (0.01, 0.99)
            vals = seeds.np_rng(op["dseed"], "tmp").uniform(lo, hi, size=self.n)
            if name == "tmp_c06" and op.get("bad"):
                # input the plugin recipe refuses (its computation raises ValueError) until the values are replaced again
                vals[op["dseed"] % self.n] = -1.0
                ctx.probe("temp_input_the_recipe_refuses")
            if not hasattr(self, "temp_hist"):
                self.temp_hist = {}
            if op.get("exact"):
                ctx.probe("temp_feature_earlier_values_assigned_again")
            else:
                self.temp_hist.setdefault(name, []).append((op["dseed"], op.get("via", "base") if self.child is not None else "base"))
                if op.get("bad") or (name in self.temps and (op["dseed"] % 3 == 0 or op.get("tail")) and self.n > 4):
                    self.temp_hist[name] = []      # (values not reproducible from the data seed alone)
            if not op.get("exact") and name in self.temps and (op["dseed"] % 3 == 0 or op.get("tail")) and self.n > 4:
                # only the last few events change (a block-wise identifier must still see it)
                keep = self.temps[name].copy()
                k_tail = 1 + op["dseed"] % min(100, self.n // 2)
                keep[-k_tail:] = vals[-k_tail:]
                vals = keep
                ctx.probe("temp_feature_tail_changed")
            if name in self.temps:
                ctx.probe("temp_feature_replaced")
                if name.startswith("ml_score"):
                    ctx.probe("ml_score_replaced")
            via = op.get("via", "base") if self.child is not None else "base"
            target = {"base": self.base, "mid": self.mid if self.mid is not None else self.base, "child": self.child}.get(via, self.base)
            pending = self.need_refresh
            with ctx.sut("C06.set_temporary_feature"):
                # (no filters in this world: every level holds all events, the same array fits each of them)
                dclab.set_temporary_feature(target, name, vals)
            self.temps[name] = vals
            # set through the dataset that is read: it is documented to update itself, no rejuvenate() by the caller
            self.skip_refresh_once = bool(target is self.child and self.child is not None and not pending)
            if self.skip_refresh_once:
                ctx.probe("temp_set_through_child")
            ctx.log("a", f"temp {name}", seeds.short_hash(vals))
            self.mark_edit("temp " + name)
            return
        if k == "rewrite":
            if self.path is None or self.child is not None:
                return
            from dclab.rtdc_dataset.writer import RTDCWriter
            newdata = make_data(op["dseed"], self.n, self.k["with_temp"], self.k["with_images"], self.k.get("ml_innate", True))
            old_base = self.base
            self.data = newdata
            try:
                old_base.close()      # (its settings stay readable)
            except Exception:
                pass
            import os
            tmpp = self.path.with_name("c06_new.rtdc")
            with RTDCWriter(tmpp, mode="reset") as hw:
                hw.store_metadata({"setup": {"software version": "ShapeIn 2.2.2.4"}, "experiment": {"sample": "s", "run index": 1}})
                for f, v in self.data.items():
                    hw.store_feature(f, v)
            os.replace(tmpp, self.path)     # (handles that are still open keep the old file)
            fr, _ = self.fresh()      # (built from the path, with the current settings and temporary features)
            self.base = fr
            # what was read from the old file is read again from the new one
            self.pending_reads = [f for f in sorted(self.read_before) if f in READ_FEATS or f == "emodulus"][:4]
            self.read_before = set()
            ctx.probe("other_measurement_written_to_the_same_path")
            ctx.log("a", "rewrite", seeds.short_hash([self.data[f] for f in sorted(self.data)]))
            self.mark_edit("rewrite")
            return
        if k == "refresh":
            if self.child is not None:
                with ctx.sut("C06.rejuvenate"):
                    self.child.rejuvenate()
                self.child_fresh = True
                ctx.log("a", "refresh")
            return
        if k == "faultread":
            seam = getattr(self, "rseam", None)
            if seam is None:
                return
            feat = op["feat"]
            # the file's scalar features are cold again, as right after opening it
            for ev in list(getattr(getattr(self.base, "_events", None), "_cached_events", {}).values()):
                if getattr(ev, "_array", None) is not None and hasattr(ev, "h5ds"):
                    ev._array = None
            seam.arm(op["at"], op["kind"])
            raised = None
            try:
                with warnings.catch_warnings():
                    warnings.simplefilter("ignore")
                    obj = self.ds[feat]
                    np.asarray(obj[0] if feat == "contour" else obj[:])
            except BaseException as e:  # noqa: B036 (KeyboardInterrupt is one of the injected kinds)
                if type(e).__name__ in ("StopRun", "SystemExit"):
                    seam.disarm()
                    raise
                raised = e
            fired = seam.disarm()
            ctx.log("r", f"faultread {feat}", f"fired={fired} raised={type(raised).__name__ if raised is not None else None}")
            if fired:
                ctx.fault("read_" + op["kind"])
                ctx.probe("read_repeated_after_transient_read_fault")
            self.read_and_check(feat)
            return
        if k in ("read", "avail"):
            self.read_and_check(op["feat"], only_avail=(k == "avail"))

    # ---------------- oracle ----------------
    def emodulus_expected(self):
        """Independent precedence table -> direct call of get_emodulus (None: not computable)."""
        from dclab.features import emodulus as emod
        cfg = self.base.config
        calc = cfg["calculation"]
        need = [("imaging", "pixel size"), ("setup", "flow rate"), ("setup", "channel width")]
        if any(key not in cfg[sec] for sec, key in need) or "emodulus lut" not in calc:
            return None
        if cfg["setup"].get("chip region", "channel") != "channel":
            return None
        px = cfg["imaging"]["pixel size"]
        area_um = self.data["area_cvx"] * px ** 2
        deform = 1 - self.data["circ"]
        common = dict(area_um=area_um, deform=deform, channel_width=cfg["setup"]["channel width"],
                      flow_rate=cfg["setup"]["flow rate"], px_um=px, lut_data=calc["emodulus lut"])
        medium = calc.get("emodulus medium")
        visc = calc.get("emodulus viscosity")
        temp = calc.get("emodulus temperature")
        model = calc.get("emodulus viscosity model", "herold-2017")
        if visc is not None and str(medium).lower() == "other":
            self.ctx.probe("emodulus_case_B")
            return emod.get_emodulus(medium=visc, temperature=None, visc_model=None, **common)
        if medium is None or str(medium).lower() == "other":
            return None
        if temp is not None:
            self.ctx.probe("emodulus_case_C")
            if temp == 0:
                self.ctx.probe("temperature_zero")
            return emod.get_emodulus(medium=medium, temperature=temp, visc_model=model, **common)
        if "temp" in self.data:
            self.ctx.probe("emodulus_case_A")
            return emod.get_emodulus(medium=medium, temperature=self.data["temp"], visc_model=model, **common)
        return None

    def read_and_check(self, feat, only_avail=False):
        ctx = self.ctx
        ds = self.ds
        if self.child is not None and getattr(self, "skip_refresh_once", False) and not self.need_refresh:
            ctx.probe("child_read_without_explicit_refresh")
        elif self.child is not None:
            # children keep what they have until rejuvenate(): judge after a refresh only
            with ctx.sut("C06.rejuvenate"):
                self.child.rejuvenate()
            self.need_refresh = False
            ctx.probe("child_after_refresh")
        with warnings.catch_warnings():
            warnings.simplefilter("ignore")
            with ctx.sut("C06.contains", sig={"feat": feat}):
                avail = feat in ds
            fr, fr_root = self.fresh()
            with ctx.sut("C06.contains_fresh", sig={"feat": feat}):
                avail_f = feat in fr
            ctx.checked()
            calc = self.base.config["calculation"]
            keyset = ",".join(sorted(kk.replace("emodulus ", "") for kk in calc.keys() if kk.startswith("emodulus")))
            ctx.state(feat, keyset, "temp" in self.data, feat in self.read_before, self.dirty_since_read.get(feat, "-"))
            sig = {"feat": feat, "dirty": self.dirty_since_read.get(feat, "-")}
            if avail != avail_f:
                ctx.violation("C06.availability.fresh", f"'{feat} in ds' is {avail} on the long-lived dataset but {avail_f} on a fresh one "
                                                        f"(last edit: {self.last_edit}); calculation={dict(calc)}", sig=sig)
            if only_avail:
                ctx.log("r", f"avail {feat}", avail)
                return

            def rd(d):
                try:
                    obj = d[feat]
                    if feat == "contour":
                        return True, [np.asarray(obj[i]) for i in range(len(d))]
                    return True, np.asarray(obj[:])
                except KeyError:
                    return False, None
                except ValueError:
                    if feat in ("c06_a", "c06_b") and "tmp_c06" in self.temps and np.any(self.temps["tmp_c06"] < 0):
                        # the recipe refuses the current input: legitimate on both datasets
                        return "refused", None
                    raise
            with ctx.sut("C06.read", sig=sig):
                ok, val = rd(ds)
            with ctx.sut("C06.read_fresh", sig=sig):
                ok_f, val_f = rd(fr)
        ctx.checked()
        if ok == "refused" or ok_f == "refused":
            ctx.probe("computation_refused_input")
            if ok != ok_f:
                ctx.violation("C06.value.fresh", f"reading {feat} gives {ok} on the long-lived dataset but {ok_f} on a fresh one "
                                                 f"(the recipe refuses negative tmp_c06)", sig=sig)
            self.read_before.add(feat)
            ctx.log("r", f"read {feat}", "refused")
            if not getattr(self, "reread_after_refusal", False):
                # the caller asks again at once (nothing was changed in between)
                self.reread_after_refusal = True
                self.pending_reads = [feat] + list(getattr(self, "pending_reads", []))
            else:
                self.reread_after_refusal = False
                ctx.probe("read_again_after_refused_computation")
            return
        if ok != avail:
            ctx.violation("C06.availability.read", f"'{feat} in ds' is {avail} but reading {'succeeds' if ok else 'raises KeyError'} "
                                                   f"(last edit: {self.last_edit}); calculation={dict(calc)}", sig=sig)
        if not ok:
            ctx.probe("unavailable_read_raises")
        if ok != ok_f:
            ctx.violation("C06.value.fresh", f"reading {feat} {'succeeds' if ok else 'fails'} on the long-lived dataset but "
                                             f"{'succeeds' if ok_f else 'fails'} on a fresh one", sig=sig)
        if ok:
            same = (len(val) == len(val_f) and all(np.array_equal(a, b) for a, b in zip(val, val_f))) if feat == "contour" \
                else (val.shape == val_f.shape and np.array_equal(val, val_f, equal_nan=val_f.dtype.kind == "f"))
            if not same:
                ctx.violation("C06.value.fresh", f"{feat} read from the long-lived dataset differs from a freshly constructed dataset with the "
                                                 f"same data and configuration (edited since last read: {self.dirty_since_read.get(feat, '-')}); "
                                                 f"calculation={dict(calc)}", sig=sig)
            if feat in ("c06_a", "c06_b"):
                ctx.probe("plugin_read")
        if feat in ("fl1_max_ctc", "fl2_max_ctc") and ok:
            # independent of every cache: the correction applied directly to the stored maxima with the current matrix elements
            from dclab.features.fl_crosstalk import correct_crosstalk
            ctd = {}
            for i_ in (1, 2, 3):
                for j_ in (1, 2, 3):
                    key_ = f"crosstalk fl{i_}{j_}"
                    if i_ != j_ and key_ in calc:
                        ctd[f"ct{i_}{j_}"] = calc[key_]
            ctx.checked()
            with warnings.catch_warnings():
                warnings.simplefilter("ignore")
                # (the stored maxima as the dataset delivers them: files hold them as integers)
                exp_c = correct_crosstalk(fl1=np.asarray(ds["fl1_max"][:]), fl2=np.asarray(ds["fl2_max"][:]), fl3=0,
                                          fl_channel=int(feat[2]), **ctd)
            if not np.array_equal(np.asarray(exp_c), val, equal_nan=True):
                ctx.violation("C06.value.direct", f"{feat} differs from the crosstalk correction of the stored fl1_max/fl2_max with the "
                                                  f"current matrix elements (last edit: {self.last_edit}); calculation={dict(calc)}", sig=sig)
        if feat == "emodulus":
            ctx.checked()
            with warnings.catch_warnings():
                warnings.simplefilter("ignore")
                exp = self.emodulus_expected()
            if (exp is not None) != ok:
                ctx.violation("C06.emodulus.precedence", f"emodulus {'is' if ok else 'is not'} computed but the documented scenarios say it "
                                                         f"{'cannot' if exp is None else 'can'} be; calculation={dict(calc)}", sig=sig)
            if ok and exp is not None and not np.array_equal(np.asarray(exp), val, equal_nan=True):
                ctx.violation("C06.emodulus.precedence", f"emodulus differs from get_emodulus called with the inputs of the documented "
                                                         f"scenario; calculation={dict(calc)}", sig=sig)
        self.read_before.add(feat)
        self.dirty_since_read.pop(feat, None)
        ctx.log("r", f"read {feat}", seeds.short_hash(val) if ok else "KeyError")


def warm():
    """Called once in the parent before workers are forked: parsing a look-up table from its text file costs
    ~0.1 s and happens on every emodulus computation; memoise the parser for the built-in identifiers
    (a pure function of files on disk; every call still gets its own copies)."""
    import copy
    import dclab.features.emodulus as emod
    from dclab.features.emodulus import load
    orig = load.load_lut
    memo = {}

    def load_lut_memo(lut_data="LE-2D-FEM-19"):
        if isinstance(lut_data, str):
            if lut_data not in memo:
                memo[lut_data] = orig(lut_data)
            lut, meta = memo[lut_data]
            return lut.copy(), copy.deepcopy(meta)
        return orig(lut_data)
    load.load_lut = load_lut_memo
    if getattr(emod, "load_lut", None) is orig:
        emod.load_lut = load_lut_memo
    for lut in ("LE-2D-FEM-19", "HE-2D-FEM-22"):
        load_lut_memo(lut)


def run(trace, ctx):
    w = World(trace, ctx)
    while True:
        op = ctx.next_op(w.gen_op, max_ops=trace.get("max_ops", 20))
        if op is None:
            break
        w.execute(op)
    w.read_and_check("emodulus" if not trace["knobs"].get("big") else "c06_b")
    ctx.info["sample"] = {"knobs": trace["knobs"], "ops": (trace.get("ops") or [])[:10]}
