#!/usr/bin/env python3
"""Round-5 prompt: like seed_prompt2.py (mechanisms already taken are listed), with a different flavour per property:
changes that look like performance work, error-handling clean-ups or API modernisation."""
import json, sys, pathlib, subprocess
pid, wt = sys.argv[1], sys.argv[2]
base = subprocess.run([sys.executable, "/verif/tools/seed_prompt.py", pid, wt], capture_output=True, text=True).stdout
taken = []
for d in sorted(pathlib.Path("/verif/seeded").glob(f"{pid}-s*")):
    m = json.loads((d / "meta.json").read_text())
    taken.append(f"  - {m.get('summary','')} [{m.get('mechanism','')[:160]}]")
flavour = {
    "C10": "both changes must concern a task OTHER than the ones used by the earlier regressions where possible (tdms2rtdc, repack, condense, join), and must need either a fault at a particular KIND of call (closing a file, creating a group, copying an object, removing a file) or a particular pre-existing state of the output directory",
    "C14": "both changes must concern how TWO OR MORE basins of one dataset interact (order of the definitions, one reachable and one not, same features offered by both, one nested inside the other, internal plus remote), or what is remembered on the dataset after a failed access",
    "C19": "both changes must concern either the dataset level (RTDC_HTTP / RTDC_S3 opening a served .rtdc file: ETag/identifier handling, closing and reopening, several datasets on the same host sharing a session) or reads of size 0, negative size, or exactly one byte at chunk borders",
}.get(pid, "both changes must only manifest through INTERFERENCE BETWEEN DIFFERENT OBJECTS in one process: two datasets/files/writers handled in the same session that share something they should not share (a class attribute used as instance state, a mutable default argument, a module-level dict or list, a registered temporary/plugin feature, a configuration object that is not copied, a numpy array that is a view of another one). A single dataset handled alone must behave correctly")
extra = ("\n\nADDITIONAL REQUIREMENTS FOR THIS ROUND\nOther colleagues have already produced the following regressions for this property; do NOT repeat these mechanisms, find different ones:\n"
         + "\n".join(taken) + f"\nFlavour: {flavour}.\nPractical hints: run pytest with `-p no:hypothesispytest`; never use `git stash` (shared between worktrees) — use `git diff > file; git checkout -- .; git apply file`. Temporary files of demo.py must be created with tempfile and removed at the end. Name your output directories SEED1 and SEED2 as described.")
print(base + extra)
