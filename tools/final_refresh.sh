#!/bin/bash
# Regenerate every evidence file with the quick tier on the current trees, regenerate and validate MANIFEST.json.
cd "$(dirname "$0")/.." || exit 2
rc=0
for c in C01 C02 C03 C04 C06 C07 C08 C09 C10 C13 C14 C17 C19 C20; do
  out=$(bin/check $c --tier quick 2>&1 | grep -v conda)
  code=$?
  echo "$c: $(echo "$out" | grep -a 'runs=' | tail -1 | cut -c1-160)"
  echo "$out" | grep -a "^VIOLATION\|HARNESS" | head -3
  echo "$out" | grep -a -q "^VIOLATION" && rc=1
done
python3 tools/mkmanifest.py > /dev/null
python3-vt - <<'PY'
import json, jsonschema, glob
jsonschema.validate(json.load(open('MANIFEST.json')), json.load(open('/root/.vp/MANIFEST.schema.json')))
sc = json.load(open('/root/.vp/EVIDENCE.schema.json'))
for f in sorted(glob.glob('evidence/*.json')):
    jsonschema.validate(json.load(open(f)), sc)
print("MANIFEST and", len(glob.glob('evidence/*.json')), "evidence files valid")
PY
exit $rc
