#!/usr/bin/env python3
"""Sensitivity self-test: apply each canary (canaries/defs.py and canaries/*.diff) to a scratch copy of /repo,
run the matching check's quick tier against the copy, expect a VIOLATION.  /repo itself is never touched.

usage: tools/selftest_sensitivity.py [--only C14] [--runs N] [--jobs J]
Writes canaries/RESULTS.json (killed / total per property)."""
import argparse
import json
import os
import pathlib
import shutil
import subprocess
import sys
import tempfile
from concurrent.futures import ThreadPoolExecutor

VERIF = pathlib.Path(__file__).resolve().parent.parent
sys.path.insert(0, str(VERIF))
from canaries import defs  # noqa: E402


def scratch_root():
    for base in ("/dev/shm", tempfile.gettempdir()):
        if os.path.isdir(base) and os.access(base, os.W_OK):
            return pathlib.Path(base)
    raise SystemExit("no scratch space")


def make_copy(dst):
    subprocess.run(["rsync", "-a", "--exclude", ".git", "--exclude", "docs", "--exclude", "__pycache__", "/repo/", str(dst) + "/"], check=True)


def run_one(name, prop, apply_fn, runs, workers):
    base = scratch_root() / f"verif-canary-{os.getpid()}-{name}"
    shutil.rmtree(base, ignore_errors=True)
    try:
        make_copy(base)
        err = apply_fn(base)
        if err:
            return name, prop, "not-applicable", err
        env = dict(os.environ, VERIF_REPO=str(base), VERIF_WORKERS=str(workers))
        cmd = [str(VERIF / "bin" / "check"), prop, "--tier", "quick", "--no-evidence"]
        if runs:
            cmd += ["--runs", str(runs)]
        cp = subprocess.run(cmd, env=env, capture_output=True, text=True, timeout=1500)
        out = cp.stdout
        viol = [ln for ln in out.splitlines() if ln.startswith("VIOLATION property=")]
        first = next((ln for ln in out.splitlines() if ln.startswith("violation:")), "")
        for ln in viol:
            p = ln.split("replay=", 1)[1].strip()
            try:
                os.unlink(p)
            except OSError:
                pass
        status = "killed" if (cp.returncode == 1 and viol) else ("harness-error" if cp.returncode == 2 else "survived")
        return name, prop, status, first[:200]
    finally:
        shutil.rmtree(base, ignore_errors=True)


def main():
    ap = argparse.ArgumentParser()
    ap.add_argument("--only", default=None)
    ap.add_argument("--runs", type=int, default=0)
    ap.add_argument("--jobs", type=int, default=4)
    args = ap.parse_args()
    jobs = []
    for (name, prop, path, old, new) in defs.CANARIES:
        def apply_fn(base, path=path, old=old, new=new):
            p = base / path
            s = p.read_text()
            if s.count(old) != 1:
                return f"pattern occurs {s.count(old)} times in {path}"
            p.write_text(s.replace(old, new))
            return None
        jobs.append((name, prop, apply_fn))
    for d in sorted((VERIF / "canaries").glob("*.diff")):
        prop = d.name.split("-", 1)[0]

        def apply_fn(base, d=d):
            cp = subprocess.run(["patch", "-p1", "--no-backup-if-mismatch", "-s", "-i", str(d)], cwd=base, capture_output=True, text=True)
            return None if cp.returncode == 0 else "patch failed: " + cp.stdout[-200:]
        jobs.append((d.stem, prop, apply_fn))
    if args.only:
        jobs = [j for j in jobs if j[1] == args.only or j[0] == args.only]
    workers = max(2, 16 // args.jobs)
    results = []
    with ThreadPoolExecutor(max_workers=args.jobs) as ex:
        futs = [ex.submit(run_one, n, p, f, args.runs, workers) for (n, p, f) in jobs]
        for fu in futs:
            r = fu.result()
            results.append(r)
            print(f"{r[2]:15s} {r[0]:40s} {r[3]}", flush=True)
    summary = {}
    for name, prop, status, _ in results:
        s = summary.setdefault(prop, {"killed": 0, "total": 0, "survivors": []})
        if status == "not-applicable":
            continue
        s["total"] += 1
        if status == "killed":
            s["killed"] += 1
        else:
            s["survivors"].append(f"{name} ({status})")
    if not args.only:
        (VERIF / "canaries" / "RESULTS.json").write_text(json.dumps(summary, indent=1, sort_keys=True) + "\n")
    print(json.dumps(summary, indent=1, sort_keys=True))
    return 0 if all(not s["survivors"] for s in summary.values()) else 1


if __name__ == "__main__":
    sys.exit(main())
