#!/usr/bin/env python3
"""Round-3 prompt: like seed_prompt2.py (mechanisms already taken are listed), with a different flavour per property:
changes that look like performance work, error-handling clean-ups or API modernisation."""
import json, sys, pathlib, subprocess
pid, wt = sys.argv[1], sys.argv[2]
base = subprocess.run([sys.executable, "/verif/tools/seed_prompt.py", pid, wt], capture_output=True, text=True).stdout
taken = []
for d in sorted(pathlib.Path("/verif/seeded").glob(f"{pid}-s*")):
    m = json.loads((d / "meta.json").read_text())
    taken.append(f"  - {m.get('summary','')} [{m.get('mechanism','')[:160]}]")
flavour = {
    "C10": "one change must concern what happens when the task is interrupted or an I/O call fails at a particular point (write, flush, rename, unlink, close) or when it is run twice; the other may concern a task other than compress/split (join, repack, condense, tdms2rtdc)",
    "C14": "one change must concern error handling of remote basins (which exceptions are caught where, what is cached after a failed attempt, what happens when a host comes back), the other the traversal itself (nested basins, ignored-basin bookkeeping, identifier comparison for mapped basins)",
    "C19": "one change must concern the retry/timeout path or the header parsing (length, ETag) and the other the cache bookkeeping (which chunk is evicted, pinned first chunk, reading exactly up to or beyond the end)",
    "C01": "one change must concern a second writer session on an existing file (append/replace after reopening) and the other the chunking/compression parameters or string encoding",
    "C20": "one change must concern how stored summaries are carried over or completed by the copy tools/export, the other the reader-side cache of a dataset kind other than plain files",
    "C17": "one change must concern the bounded size/eviction of a cache (what is evicted, when the size check happens), the other the key derivation for a kind of argument that is rarely used",
}.get(pid, "make the changes look like performance work (caching, hoisting a computation out of a loop, avoiding a copy, vectorising), an error-handling clean-up (narrower/broader except clauses, early returns) or an API modernisation; at least one should need a multi-step history or a boundary-sized input to manifest")
extra = ("\n\nADDITIONAL REQUIREMENTS FOR THIS ROUND\nOther colleagues have already produced the following regressions for this property; do NOT repeat these mechanisms, find different ones:\n"
         + "\n".join(taken) + f"\nFlavour: {flavour}.\nPractical hints: run pytest with `-p no:hypothesispytest`; never use `git stash` (shared between worktrees) — use `git diff > file; git checkout -- .; git apply file`. Temporary files of demo.py must be created with tempfile and removed at the end. Name your output directories SEED1 and SEED2 as described.")
print(base + extra)
