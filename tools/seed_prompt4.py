#!/usr/bin/env python3
"""Round-4 prompt: like seed_prompt2.py (mechanisms already taken are listed), with a different flavour per property:
changes that look like performance work, error-handling clean-ups or API modernisation."""
import json, sys, pathlib, subprocess
pid, wt = sys.argv[1], sys.argv[2]
base = subprocess.run([sys.executable, "/verif/tools/seed_prompt.py", pid, wt], capture_output=True, text=True).stdout
taken = []
for d in sorted(pathlib.Path("/verif/seeded").glob(f"{pid}-s*")):
    m = json.loads((d / "meta.json").read_text())
    taken.append(f"  - {m.get('summary','')} [{m.get('mechanism','')[:160]}]")
flavour = {
    "C10": "both changes must need a fault or interruption at a particular point of a task AND something more: a second run on the same paths, an output directory that already holds files, several outputs of one task, or an error raised while another error is being handled (clean-up code that itself fails)",
    "C14": "both changes must need a particular order of events between the caller, the background availability-check thread and the network (a host that answers the first request and not the second, a basin that becomes available after the first listing, two basins pointing to the same host with different results), or a basin graph of depth >= 3",
    "C19": "both changes must need a fault in the middle of a longer access history: a retried request after partial progress, a chunk that is evicted while a multi-chunk read is being assembled, a read that starts in the pinned first chunk and ends beyond the end of the resource, or a server that answers a range request with the full body (200 instead of 206)",
}.get(pid, "both changes must need a HISTORY of at least four operations on the same objects to manifest (e.g. write - reopen - modify - read; filter - export - refilter - export; open - read - change configuration - read; copy of a copy of a copy), so that no single call and no two-step sequence shows it; prefer state that survives between operations: memoised values, cached arrays, lists that are mutated in place, class-level or module-level variables, files left on disk")
extra = ("\n\nADDITIONAL REQUIREMENTS FOR THIS ROUND\nOther colleagues have already produced the following regressions for this property; do NOT repeat these mechanisms, find different ones:\n"
         + "\n".join(taken) + f"\nFlavour: {flavour}.\nPractical hints: run pytest with `-p no:hypothesispytest`; never use `git stash` (shared between worktrees) — use `git diff > file; git checkout -- .; git apply file`. Temporary files of demo.py must be created with tempfile and removed at the end. Name your output directories SEED1 and SEED2 as described.")
print(base + extra)
