#!/bin/bash
# usage: tools/new_seed_worktree.sh <name>   -> creates /tmp/seed/<name> (git worktree of /repo HEAD, with the
# git-ignored build artefacts copied in so that it imports and tests run with PYTHONPATH=<worktree>)
set -e
NAME="$1"; WT="/tmp/seed/$NAME"
mkdir -p /tmp/seed
git -C /repo worktree add -q --detach "$WT" HEAD
( cd /repo && find dclab -name "*.so" -o -name "_version.py" ) | while read f; do cp "/repo/$f" "$WT/$f"; done
echo "$WT"
