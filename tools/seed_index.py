#!/usr/bin/env python3
"""Write /verif/seeded/INDEX.md from the meta.json files (which check catches which seeded change)."""
import json, pathlib
root = pathlib.Path(__file__).resolve().parent.parent / "seeded"
rows = []
for d in sorted(p for p in root.iterdir() if p.is_dir()):
    m = json.loads((d / "meta.json").read_text())
    ev = m.get("evaluation", {})
    checks = ev.get("checks", {})
    caught = sorted(k for k, v in checks.items() if v.get("exit") == 1 and v.get("violations"))
    missed = sorted(k for k, v in checks.items() if not (v.get("exit") == 1 and v.get("violations")))
    extra = m.get("also_caught_by", [])
    rows.append((d.name, m.get("property"), m.get("summary", "").replace("|", "/"), m.get("needs_to_manifest", "").replace("|", "/")[:260],
                 ", ".join(caught + [f"{x} (cross)" for x in extra if x not in caught]) or "-", ", ".join(missed) or "-",
                 "yes" if ev.get("demo_ok") else "NO", "yes" if ev.get("suite_ok") else ("n/a" if "suite_ok" not in ev else "NO")))
out = ["# Seeded changes", "",
       "Independent changes to dclab written by fresh sub-agents that saw only the text of one property (nothing from /verif).",
       "Each directory holds `patch.diff` (against /repo at the time of writing), `demo.py` (exits 0 on the unchanged code, non-zero with the",
       "change) and `meta.json` (what it breaks, what it needs to manifest, what was run). Every change was confirmed with",
       "`tools/eval_seed.py` on a scratch copy of /repo: demo passes clean / fails patched, the pinned upstream suite keeps its stable-pass set,",
       "then the quick tier of the property's check (and of related checks, marked *cross*) ran against the patched copy.", "",
       "| id | property | change | needs to manifest | caught by (quick tier) | not caught by | demo ok | suite unchanged |",
       "|---|---|---|---|---|---|---|---|"]
for r in rows:
    out.append("| " + " | ".join(r) + " |")
n = len(rows)
c = sum(1 for r in rows if r[4] != "-")
out += ["", f"{c} of {n} seeded changes are caught by the quick tier of at least one check.", ""]
(root / "INDEX.md").write_text("\n".join(out))
print(f"{c}/{n} caught")
