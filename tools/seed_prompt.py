#!/usr/bin/env python3
"""Print the prompt for a seeded-change sub-agent: only the text of the property and its worktree (nothing from /verif)."""
import json, sys
pid, wt = sys.argv[1], sys.argv[2]
props = {json.loads(l)["id"]: json.loads(l) for l in open("/verif/properties.jsonl")}
p = props[pid]
print(f"""You are a software engineer playing the role of a colleague who introduces a subtle regression. The project is dclab (Python library for real-time deformability cytometry data: .rtdc/HDF5 files, filters, hierarchies, basins, CLI tools). You have your own scratch git worktree of the repository at {wt} (work ONLY there; never touch /repo or /verif; do not read anything under /verif). Run Python as /venv/bin/python with PYTHONPATH={wt} so that your worktree's dclab is imported (check with: cd {wt} && PYTHONPATH={wt} /venv/bin/python -c "import dclab; print(dclab.__file__)"). Cython is not available: do not edit .pyx files.

The property that users rely on:

TITLE: {p['title']}
STATEMENT: {p['statement']}
QUANTIFIED OVER: {p['quantifier']['text']}
CODE IT IS ANCHORED IN: {', '.join(p['anchors']['files'])}

YOUR TASK: produce TWO different, independent changes to dclab's source (each a small patch against the clean worktree HEAD, touching different mechanisms if possible) that BREAK this property while the code still imports/compiles and the EXISTING test suite still passes exactly as before (the same tests pass; note that some tests fail already in this offline environment without any change — establish that baseline first for the test files relevant to your change, e.g. `cd {wt} && PYTHONPATH={wt} /venv/bin/python -m pytest -q -p no:cacheprovider tests/<relevant files>`, and finally run the whole suite once per change: `PYTHONPATH={wt} /venv/bin/python -m pytest -q -p no:cacheprovider -x --timeout=900 tests` is too strict because of the baseline failures; use `-q` without `-x` and compare the set of failures with the baseline set).

The changes must be REALISTIC (the kind of slip a refactoring, an optimisation or a "simplification" introduces — not sabotage like `if x == 42`) and must need something SPECIFIC to manifest, so that ordinary use does not expose them at once: a particular interleaving or order of operations, a crash or fault at a particular point, a multi-step sequence of operations, an unusual but legal input (sizes around chunk boundaries, NaN placement, unusual metadata), or two cooperating sites that each look fine alone. Prefer changes in the anchored files.

For EACH change i in {{1, 2}} create the directory {wt}/SEED{{i}}/ containing:
  - patch.diff : `git diff` of the change against the clean HEAD (apply-able with `git apply` in a clean checkout); revert the worktree to clean (`git checkout -- .`) before starting the second change so that the two patches are independent;
  - demo.py : a small self-contained program (uses only dclab, numpy, h5py, the standard library; creates its own temporary files; no network) that exits 0 on the unmodified code and exits non-zero (assertion error with a clear message) when the change is applied; it must import dclab from whatever is first on PYTHONPATH;
  - meta.json : {{"property": "{pid}", "summary": "<one line>", "mechanism": "<which code, what was changed>", "needs_to_manifest": "<the specific sequence / input / timing / fault needed>", "tests_run": "<commands you ran and their outcome with and without the change>"}}.
Verify yourself: demo.py passes on clean HEAD, fails with the patch; the relevant upstream tests give the same results with and without the patch. Leave the worktree clean (git checkout -- .) at the end, keeping only the SEED1/ and SEED2/ directories (untracked). In your final answer summarise both changes in a few lines each.""")
