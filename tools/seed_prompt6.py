#!/usr/bin/env python3
"""Round-6 prompt: like seed_prompt5.py (mechanisms already taken are listed); flavour: the change must only manifest after a
FAILED or INTERRUPTED operation, or in a history of three or more state-changing operations in a particular order."""
import json, sys, pathlib, subprocess
pid, wt = sys.argv[1], sys.argv[2]
base = subprocess.run([sys.executable, "/verif/tools/seed_prompt.py", pid, wt], capture_output=True, text=True).stdout
taken = []
for d in sorted(pathlib.Path("/verif/seeded").glob(f"{pid}-s*")):
    m = json.loads((d / "meta.json").read_text())
    taken.append(f"  - {m.get('summary','')} [{m.get('mechanism','')[:140]}]")
flavour = ("SEED1 must only manifest AFTER A FAILED OR INTERRUPTED OPERATION on the same objects or paths: an exception raised midway "
           "(OSError from a write/close/rename/unlink, a ValueError for a bad argument, KeyboardInterrupt, a connection error or timeout "
           "for network code), after which the caller legitimately continues (retries, re-opens, calls again with good arguments) and "
           "now gets wrong data or a wrong file although the retry 'succeeds' — i.e. state left behind by the failure (a half-updated "
           "cache, a flag set too early, a counter advanced before the write, a temporary file reused, a lock or registry entry not "
           "released). SEED2 must only manifest in a HISTORY OF THREE OR MORE state-changing operations in a particular order "
           "(e.g. A then B then A again with other arguments; set-unset-set; open-close-reopen; grow-shrink-grow), where every shorter "
           "history and every other order behaves correctly")
extra = ("\n\nADDITIONAL REQUIREMENTS FOR THIS ROUND\nOther colleagues have already produced the following regressions for this property; do NOT repeat these mechanisms, find different ones:\n"
         + "\n".join(taken) + f"\nFlavour: {flavour}.\nIf the flavour is truly impossible for this property's code, fall back to the most history- or fault-dependent change you can find and say so in meta.json.\nPractical hints: run pytest with `-p no:hypothesispytest`; never use `git stash` (shared between worktrees) — use `git diff > file; git checkout -- .; git apply file`. Temporary files of demo.py must be created with tempfile and removed at the end; demo.py may inject the failure itself by monkeypatching (e.g. wrapping an h5py or pathlib method to raise once). Name your output directories SEED1 and SEED2 as described. Be efficient: aim to finish within 40 minutes.")
print(base + extra)
