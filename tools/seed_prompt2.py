#!/usr/bin/env python3
"""Round-2 prompt: like seed_prompt.py, plus the mechanisms already taken in round 1 and a flavour request."""
import json, sys, pathlib, subprocess
pid, wt = sys.argv[1], sys.argv[2]
base = subprocess.run([sys.executable, "/verif/tools/seed_prompt.py", pid, wt], capture_output=True, text=True).stdout
taken = []
for d in sorted(pathlib.Path("/verif/seeded").glob(f"{pid}-s*")):
    m = json.loads((d / "meta.json").read_text())
    taken.append(f"  - {m.get('summary','')} [{m.get('mechanism','')[:160]}]")
flavour = {
    "C10": "at least one of your two changes must only manifest under a *sequence*: a crash followed by a restart of the same task (stale temporary or output files left by the first run), or a fault in a task with several outputs (split, tdms2rtdc on a directory)",
    "C14": "at least one of your two changes must only manifest for a particular *timing*: the background availability-check thread finishing before/after the caller's first access, a host that becomes reachable again later, or a nested basin reached through a remote one",
    "C19": "at least one of your two changes must only manifest after a particular *eviction history* (a chunk evicted and requested again, the pinned first chunk) or after a *retried* request (a timeout or dropped connection on one attempt followed by success)",
    "C04": "at least one of your two changes must involve three or more hierarchy levels or a temporary feature assigned on an intermediate level",
    "C03": "at least one of your two changes must only manifest after a particular order of edits and applications (e.g. reset, polygon modified in place, limit changed twice)",
}.get(pid, "at least one of your two changes should consist of two cooperating sites that each look fine alone, or need a multi-step history of operations")
extra = ("\n\nADDITIONAL REQUIREMENTS FOR THIS ROUND\nOther colleagues have already produced the following regressions for this property; do NOT repeat these mechanisms, find different ones:\n"
         + "\n".join(taken) + f"\nFlavour: {flavour}.\nPractical hints: run pytest with `-p no:hypothesispytest`; never use `git stash` (shared between worktrees) — use `git diff > file; git checkout -- .; git apply file`. Name your output directories SEED1 and SEED2 as described.")
print(base + extra)
