#!/usr/bin/env python3
"""Run the repository's pinned test command and compare with /root/.vp/BASELINE.json stable_pass."""
import json, subprocess, sys, xml.etree.ElementTree as ET, os
out = sys.argv[1] if len(sys.argv) > 1 else "/dev/shm/baseline.junit.xml"
b = json.load(open("/root/.vp/BASELINE.json"))
cmd = b["cmd"].replace("<file>", out)
env = dict(os.environ)
env.pop("DCLAB_VERIF", None)
subprocess.run(cmd, shell=True, env=env, stdout=subprocess.DEVNULL, stderr=subprocess.DEVNULL)
passed = set()
for tc in ET.parse(out).getroot().iter("testcase"):
    if not list(tc):
        cn = tc.get("classname"); passed.add(f"{cn}::{tc.get('name')}")
stable = set(b["stable_pass"])
missing = sorted(stable - passed)
print(f"stable_pass={len(stable)} passed_now={len(passed)} missing_from_stable={len(missing)}")
for m in missing[:30]:
    print("  NOT PASSING:", m)
sys.exit(1 if missing else 0)
