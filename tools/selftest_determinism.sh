#!/bin/bash
# Determinism self-test over all registered checks: N seeds twice (different workers), then digests under another
# PYTHONHASHSEED and another worker count must be identical.  usage: tools/selftest_determinism.sh [N] [checks...]
cd "$(dirname "$0")/.." || exit 2
N="${1:-200}"; shift
CHECKS="${*:-C01 C03 C04 C06 C08 C09 C10 C13 C14 C17 C19 C20 C02 C07}"
rc=0
for c in $CHECKS; do
  [ -f "checks/$(echo $c | tr A-Z a-z).py" ] || continue
  n=$N; [ "$c" = C10 ] && n=$((N/6+6))
  out=$(bin/check $c --selftest-determinism $n --digests 2>&1 | grep -v conda)
  echo "$c: $(echo "$out" | tail -1)"
  echo "$out" | tail -1 | grep -q " 0 mismatches, 0 harness errors" || rc=2
  a=$(echo "$out" | grep -E '^[0-9]+:' | md5sum)
  b=$(VERIF_PYTHONHASHSEED=12345 bin/check $c --selftest-determinism $n --digests --workers 5 2>&1 | grep -E '^[0-9]+:' | md5sum)
  if [ "$a" != "$b" ]; then echo "$c: digests differ under PYTHONHASHSEED=12345 / 5 workers"; rc=2; else echo "$c: identical digests under another hash seed and worker count"; fi
done
exit $rc
