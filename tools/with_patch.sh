#!/bin/bash
# usage: tools/with_patch.sh <patch.diff> <command...>
# Applies the patch to a scratch copy of /repo (outside /repo and /verif), runs the command
# with VERIF_REPO pointing at it, removes the copy.  /repo itself is never touched.
set -u
PATCH="$(readlink -f "$1")"; shift
BASE="${VERIF_SCRATCH:-/dev/shm}/verif-canary-$$"
mkdir -p "$BASE"
trap 'rm -rf "$BASE"' EXIT
rsync -a --exclude .git --exclude docs --exclude '__pycache__' /repo/ "$BASE/repo/"
( cd "$BASE/repo" && patch -p1 --no-backup-if-mismatch -s < "$PATCH" ) || { echo "patch failed"; exit 3; }
export VERIF_REPO="$BASE/repo"
"$@"
