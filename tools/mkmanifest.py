#!/usr/bin/env python3
"""Generate /verif/MANIFEST.json from the table in dst/registry.py (single source of truth)."""
import json, pathlib, sys
ROOT = pathlib.Path(__file__).resolve().parent.parent
sys.path.insert(0, str(ROOT))
from dst import registry

def main():
    checks = []
    for pid, info in sorted(registry.CLAIMED.items()):
        checks.append({
            "property_id": pid,
            "quick_cmd": f"bin/check {pid} --tier quick",
            "thorough_cmd": f"bin/check {pid} --tier thorough",
            "evidence_file": f"evidence/{pid}.json",
            "replay_cmd_template": f"bin/check {pid} --replay {{path}}",
            "engine": "dst",
            "level_claimed": {"category": info["level"], "text": info["text"],
                              "design_ref": info["design_ref"]},
            "level_note": info["note"],
            "technique": info["technique"],
        })
    man = {
        "version": 1,
        "setup_cmd": "bin/setup",
        "hooks": {
            "guard": "DCLAB_VERIF",
            "enable": "no source hooks: all seams are module attributes / h5py / requests extension points patched from /verif at run time; DCLAB_VERIF=1 is set by bin/check for its own processes only and read by nothing in /repo",
            "baseline_off_cmd": "cd /repo && /venv/bin/python -m pytest -ra -q -p no:cacheprovider --timeout=900 --continue-on-collection-errors",
            "source_commits": registry.HOOK_COMMITS,
            "add_only": True,
        },
        "engines": [{
            "name": "dst", "path": "dst/",
            "serves_properties": sorted(registry.CLAIMED),
            "kind_free_text": "deterministic simulation with fault injection: seeded forked-run driver, virtual clock/identity seams, h5py/pathlib fault seam, simulated network, seeded thread scheduler, reference models, ddmin minimiser, replay files",
        }],
        "checks": checks,
        "notes": registry.NOTES,
        "not_applicable": [{"property_id": k, "reason": v} for k, v in sorted(registry.NOT_APPLICABLE.items())],
    }
    (ROOT / "MANIFEST.json").write_text(json.dumps(man, indent=1) + "\n")
    print("wrote MANIFEST.json:", len(checks), "checks,", len(man["not_applicable"]), "not applicable")

if __name__ == "__main__":
    main()
