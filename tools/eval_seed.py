#!/usr/bin/env python3
"""Evaluate a seeded change (directory with patch.diff, demo.py, meta.json) against a scratch copy of /repo:

 1. demo.py passes on the clean copy, fails on the patched copy;
 2. the repository's pinned test suite still passes on the patched copy (same stable_pass set);
 3. which of our checks (quick tier) report a VIOLATION on the patched copy.

/repo itself is never modified.  usage: tools/eval_seed.py <seed dir> [--checks C01,C20] [--skip-suite] [--tier quick]
Prints a JSON summary and (with --keep <id>) stores the seed under /verif/seeded/<id>/ with the results merged into meta.json."""
import argparse
import json
import os
import pathlib
import shutil
import subprocess
import sys
import xml.etree.ElementTree as ET

VERIF = pathlib.Path(__file__).resolve().parent.parent


def sh(cmd, **kw):
    return subprocess.run(cmd, capture_output=True, text=True, **kw)


def main():
    ap = argparse.ArgumentParser()
    ap.add_argument("seed")
    ap.add_argument("--checks", default=None)
    ap.add_argument("--skip-suite", action="store_true")
    ap.add_argument("--suite-only", action="store_true", help="demo + pinned suite only; keep the recorded check results")
    ap.add_argument("--tier", default="quick")
    ap.add_argument("--keep", default=None)
    ap.add_argument("--workers", default="16")
    ap.add_argument("--budget-s", default=None, help="wall budget handed to the check (when the machine is shared)")
    args = ap.parse_args()
    seed = pathlib.Path(args.seed).resolve()
    meta = json.loads((seed / "meta.json").read_text())
    prop = meta.get("property")
    checks = args.checks.split(",") if args.checks else [prop]
    base = pathlib.Path("/dev/shm") / f"verif-seed-{os.getpid()}"
    shutil.rmtree(base, ignore_errors=True)
    out = {"seed": str(seed), "property": prop}
    try:
        subprocess.run(["rsync", "-a", "--exclude", ".git", "--exclude", "docs", "--exclude", "__pycache__", "/repo/", str(base) + "/"], check=True)
        env = dict(os.environ, PYTHONPATH=str(base), PYTHONHASHSEED="0")
        env.pop("DCLAB_VERIF", None)
        py = "/venv/bin/python"
        demo = seed / "demo.py"
        r0 = sh([py, str(demo)], env=env, cwd="/dev/shm", timeout=900)
        out["demo_clean_exit"] = r0.returncode
        ap_ = sh(["patch", "-p1", "--no-backup-if-mismatch", "-s", "-i", str(seed / "patch.diff")], cwd=base)
        out["patch_applies"] = ap_.returncode == 0
        if ap_.returncode != 0:
            out["patch_error"] = (ap_.stdout + ap_.stderr)[-400:]
            print(json.dumps(out, indent=1))
            return 2
        r1 = sh([py, str(demo)], env=env, cwd="/dev/shm", timeout=900)
        out["demo_patched_exit"] = r1.returncode
        out["demo_patched_tail"] = (r1.stdout + r1.stderr)[-300:]
        out["demo_ok"] = (r0.returncode == 0 and r1.returncode != 0)
        c = sh([py, "-c", "import dclab, dclab.cli"], env=env)
        out["imports"] = c.returncode == 0
        if not args.skip_suite:
            junit = f"/dev/shm/verif-seed-{os.getpid()}.xml"
            sh([py, "-m", "pytest", "-q", "-p", "no:cacheprovider", "--timeout=900", "--continue-on-collection-errors", f"--junitxml={junit}"],
               env=env, cwd=base, timeout=3000)
            passed = set()
            for tc in ET.parse(junit).getroot().iter("testcase"):
                if not list(tc):
                    passed.add(f"{tc.get('classname')}::{tc.get('name')}")
            stable = set(json.load(open("/root/.vp/BASELINE.json"))["stable_pass"])
            missing = sorted(stable - passed)
            out["suite_stable_missing"] = missing[:10]
            out["suite_ok"] = not missing
            os.unlink(junit)
        caught = {}
        for chk in ([] if args.suite_only else checks):
            cenv = dict(os.environ, VERIF_REPO=str(base), VERIF_WORKERS=args.workers)
            cp = sh([str(VERIF / "bin" / "check"), chk, "--tier", args.tier, "--no-evidence"]
                    + (["--budget-s", str(args.budget_s)] if args.budget_s else []), env=cenv, timeout=3000)
            viol = [ln for ln in cp.stdout.splitlines() if ln.startswith("VIOLATION property=")]
            first = [ln for ln in cp.stdout.splitlines() if ln.startswith("violation:") or ln.startswith("  detail:")][:2]
            for ln in viol:
                try:
                    os.unlink(ln.split("replay=", 1)[1].strip())
                except OSError:
                    pass
            caught[chk] = {"exit": cp.returncode, "violations": len(viol), "first": " | ".join(x.strip()[:260] for x in first)}
        if not args.suite_only:
            out["checks"] = caught
            out["caught_by"] = sorted(k for k, v in caught.items() if v["exit"] == 1 and v["violations"])
    finally:
        shutil.rmtree(base, ignore_errors=True)
    print(json.dumps(out, indent=1))
    if args.keep:
        dst = VERIF / "seeded" / args.keep
        dst.mkdir(parents=True, exist_ok=True)
        for f in ("patch.diff", "demo.py"):
            if (seed / f).resolve() != (dst / f).resolve():
                shutil.copyfile(seed / f, dst / f)
        if args.suite_only and (dst / "meta.json").exists():
            prev = json.loads((dst / "meta.json").read_text()).get("evaluation", {})
            for k in ("checks", "caught_by"):
                if k in prev:
                    out[k] = prev[k]
        if "suite_ok" not in out and (dst / "meta.json").exists():
            # --skip-suite on a re-evaluation: the patch is unchanged, keep the recorded suite result
            prev = json.loads((dst / "meta.json").read_text()).get("evaluation", {})
            for k in ("suite_ok", "suite_stable_missing"):
                if k in prev:
                    out[k] = prev[k]
        meta["evaluation"] = {k: v for k, v in out.items() if k not in ("seed",)}
        meta["what_i_ran"] = (f"tools/eval_seed.py {args.seed}: scratch copy of /repo; demo.py on the clean copy (exit {out.get('demo_clean_exit')}), "
                              f"patch applied, demo.py again (exit {out.get('demo_patched_exit')}), pinned test suite on the patched copy "
                              f"(stable set intact: {out.get('suite_ok')}), then bin/check {' '.join(checks)} --tier {args.tier} with VERIF_REPO=<copy>")
        (dst / "meta.json").write_text(json.dumps(meta, indent=1) + "\n")
    return 0


if __name__ == "__main__":
    sys.exit(main())
