"""Two-output plugin feature used by checks/c06.py (loaded with dclab.load_plugin_feature)."""
import numpy as np



def compute(rtdc_ds):
    # depends on two *computed* features (area_um <- pixel size, time <- frame rate) without naming their
    # configuration keys itself: a change of those keys reaches this feature only through the upstream features
    if np.any(np.asarray(rtdc_ds["tmp_c06"]) < 0):
        # (a recipe that refuses invalid input: the computation fails, the feature stays "available")
        raise ValueError("tmp_c06 must not be negative")
    a = rtdc_ds["circ"] / rtdc_ds["area_um"] + rtdc_ds["time"]
    b = rtdc_ds["circ"] * rtdc_ds["tmp_c06"]
    return {"c06_a": a, "c06_b": b}


info = {
    "method": compute,
    "description": "plugin for the C06 check",
    "long description": "two scalar outputs; depends on a computed feature, a temporary feature and a config key",
    "feature names": ["c06_a", "c06_b"],
    "feature labels": ["C06 A", "C06 B"],
    "features required": ["circ", "area_um", "time", "tmp_c06"],
    "config required": [],
    "method check required": lambda x: True,
    "scalar feature": [True, True],
    "version": "0.1.0",
}
